(* The invariant of the lease table along accepted histories that the wire-level statements of C01-C05, C08 need:
   who owns what (permanent entries = the configured reservations and the server itself; all other entries lie in
   the dynamic range and never collide with a permanent one), at ordered instants. *)
From PSA Require Import gen.GoFacts model.Bytes model.Checksum model.Layer model.Dhcp model.Clients model.Ipdb model.IpdbCheck
  spec.SpecCodec spec.SpecTable spec.SpecIpdb model.Server spec.Monitors
  proofs.ChecksumProofs proofs.LayerProofs proofs.DhcpProofs proofs.ClientsProofs proofs.TableProofs proofs.LeaseProofs proofs.ServerProofs
  proofs.WireProofs.
From Coq Require Import ZifyN ZifyNat ZifyBool.
Open Scope N_scope.

(* ---------- configurations ---------- *)
Definition perm_pairs (c : scfg) : list (bytes * N) := c_statics c ++ [(c_self_mac c, c_self_ip c)].

Record cfg_srv_ok (c : scfg) : Prop := {
  cs_macs : NoDup (map fst (perm_pairs c));
  cs_ips : NoDup (map snd (perm_pairs c));
  cs_range : forall mac ip, In (mac, ip) (perm_pairs c) -> net_from (c_db c) <= ip <= net_to (c_db c);
  cs_dyn : dynamic_disabled (c_db c) = false -> net_from (c_db c) <= dyn_from (c_db c) /\ dyn_to (c_db c) <= net_to (c_db c) }.

Definition perm_entry (p : bytes * N) : entry := {| e_ip := snd p; e_duid := sduid (fst p); e_until := 0%Z; e_perm := true |}.

Lemma find_live_none_all now k t : (forall e, In e t -> has_key k e = false) -> find_live now k t 0 = None.
Proof. intros H. apply find_live_none_iff. intros p e (Hn & _). apply H. eapply nth_error_In; eauto. Qed.

Lemma in_map_fst {A B} (l : list (A * B)) a b : In (a, b) l -> In a (map fst l).
Proof. intros H. apply (in_map fst) in H. exact H. Qed.
Lemma in_map_snd {A B} (l : list (A * B)) a b : In (a, b) l -> In b (map snd l).
Proof. intros H. apply (in_map snd) in H. exact H. Qed.

Lemma initial_table_eq c : cfg_srv_ok c -> initial_table c = map perm_entry (perm_pairs c).
Proof.
  intros [Hm Hi Hr _]. unfold initial_table. fold (perm_pairs c).
  set (step := fun t (p : bytes * N) => snd (t_add_permanent (c_db c) 0%Z (Some (snd p)) (sduid (fst p)) t)).
  assert (G : forall todo done, perm_pairs c = done ++ todo -> fold_left step todo (map perm_entry done) = map perm_entry (done ++ todo)).
  { induction todo as [|[mac ip] todo IH]; intros done Heq; cbn [fold_left]; [rewrite app_nil_r; reflexivity|].
    assert (Hin : In (mac, ip) (perm_pairs c)) by (rewrite Heq; apply in_or_app; right; left; reflexivity).
    assert (Hstep : step (map perm_entry done) (mac, ip) = map perm_entry (done ++ [(mac, ip)])).
    { unfold step. cbn [fst snd]. unfold t_add_permanent, to_uip. pose proof (Hr mac ip Hin) as Hrg.
      replace ((ip <? net_from (c_db c)) || (net_to (c_db c) <? ip)) with false by lia.
      unfold t_inject, t_lookup.
      rewrite Heq in Hm, Hi. rewrite map_app in Hm, Hi. cbn [map fst snd] in Hm, Hi.
      apply NoDup_remove_2 in Hm. apply NoDup_remove_2 in Hi.
      rewrite (find_live_none_all 0%Z (KIp ip)), (find_live_none_all 0%Z (KDuid (sduid mac))).
      - cbn [snd]. rewrite map_app. reflexivity.
      - intros e He. apply in_map_iff in He as ([mac' ip'] & <- & Hd). cbn [has_key perm_entry e_duid fst].
        destruct (bytes_eqb (sduid mac') (sduid mac)) eqn:E; [|reflexivity]. exfalso. apply bytes_eqb_eq in E. apply sduid_inj in E. subst mac'.
        apply Hm. apply in_or_app. left. eapply in_map_fst; eauto.
      - intros e He. apply in_map_iff in He as ([mac' ip'] & <- & Hd). cbn [has_key perm_entry e_ip snd].
        destruct (ip' =? ip) eqn:E; [|reflexivity]. exfalso. apply N.eqb_eq in E. subst ip'.
        apply Hi. apply in_or_app. left. eapply in_map_snd; eauto. }
    rewrite Hstep. rewrite (IH (done ++ [(mac, ip)])); [rewrite <- app_assoc; reflexivity|rewrite <- app_assoc; exact Heq]. }
  exact (G (perm_pairs c) [] eq_refl).
Qed.

(* ---------- who owns what ---------- *)
Definition owner_ok (c : scfg) (e : entry) : Prop :=
  if e_perm e then exists mac, In (mac, e_ip e) (perm_pairs c) /\ e_duid e = sduid mac
  else in_dyn (c_db c) (e_ip e) = true /\ dynamic_disabled (c_db c) = false /\
       (forall mac ip, In (mac, ip) (perm_pairs c) -> e_ip e <> ip /\ e_duid e <> sduid mac).

Record SInv (c : scfg) (t : table) : Prop := {
  si_entries : forall p e, nth_error t p = Some e -> owner_ok c e;
  si_perms : forall mac ip, In (mac, ip) (perm_pairs c) ->
             exists p e, nth_error t p = Some e /\ e_perm e = true /\ e_ip e = ip /\ e_duid e = sduid mac }.

Lemma initial_SInv c : cfg_srv_ok c -> SInv c (initial_table c).
Proof.
  intros Hc. rewrite (initial_table_eq c Hc). split.
  - intros p e Hn. apply nth_error_In in Hn. apply in_map_iff in Hn as ([mac ip] & <- & Hin).
    unfold owner_ok. cbn [perm_entry e_perm e_ip e_duid fst snd]. exists mac. split; [exact Hin|reflexivity].
  - intros mac ip Hin. destruct (In_nth_error _ _ Hin) as [p Hp]. exists p, (perm_entry (mac, ip)).
    split; [rewrite nth_error_map, Hp; reflexivity|]. cbn. auto.
Qed.

(* a permanent pair is bound at every instant *)
Lemma perm_live now e : e_perm e = true -> live now e = true.
Proof. intros H. unfold live, expired. rewrite H. reflexivity. Qed.

Lemma perm_bound c now t mac ip : unique_live now t -> SInv c t -> In (mac, ip) (perm_pairs c) ->
  bound_ip now (sduid mac) t = Some ip /\ bound_duid now ip t = Some (sduid mac).
Proof.
  intros U S Hin. destruct (si_perms c t S mac ip Hin) as (p & e & Hn & Hp & Hi & Hd).
  assert (L : live_at now t p e) by (split; [exact Hn|apply perm_live; exact Hp]).
  split.
  - unfold bound_ip. assert (F : find_live now (KDuid (sduid mac)) t 0 = Some p).
    { apply find_live_some_iff; [exact U|]. exists e. split; [exact L|]. cbn. apply bytes_eqb_eq. exact Hd. }
    rewrite F, Hn. cbn. rewrite Hi. reflexivity.
  - unfold bound_duid. assert (F : find_live now (KIp ip) t 0 = Some p).
    { apply find_live_some_iff; [exact U|]. exists e. split; [exact L|]. cbn. apply N.eqb_eq. exact Hi. }
    rewrite F, Hn. cbn. rewrite Hd. reflexivity.
Qed.

Lemma bound_ip_entry now d t a : bound_ip now d t = Some a -> exists p e, live_at now t p e /\ e_ip e = a /\ e_duid e = d.
Proof.
  unfold bound_ip. destruct (find_live now (KDuid d) t 0) as [p|] eqn:F; [|discriminate].
  apply find_live_some in F as (_ & e & Hn & Hl & Hk & _). rewrite Nat.sub_0_r in Hn. rewrite Hn. cbn. intros H. injection H as <-.
  exists p, e. cbn in Hk. apply bytes_eqb_eq in Hk. repeat split; auto.
Qed.

(* ---------- a successful reservation keeps the invariant ---------- *)
Lemma reserve_shape x now n d ttl t t' (hold : bool) : unique_live now t -> to_uip x (Some n) = Some n ->
  (if hold then t_hold_client x now (Some n) d ttl t else t_update_client x now (Some n) d ttl t) = (true, t') ->
  t' = t \/ (exists p u, t' = set_until t p u) \/
  (find_live now (KIp n) t 0 = None /\ find_live now (KDuid d) t 0 = None /\ exists u, t' = t ++ [new_entry n d u false]).
Proof.
  intros U Eu E.
  assert (Hcore : forall tt, t_update_client x now (Some n) d ttl t = (true, tt) ->
            tt = t \/ (exists p u, tt = set_until t p u) \/
            (find_live now (KIp n) t 0 = None /\ find_live now (KDuid d) t 0 = None /\ exists u, tt = t ++ [new_entry n d u false])).
  { intros tt E'. pose proof (t_update_spec _ _ _ _ _ _ _ _ U E') as S. rewrite Eu in S.
    destruct S as [(p & e0 & _ & _ & _ & _ & ->)|[(A & B & -> & _)|(_ & _ & Hf & _)]]; [right; left; eauto|right; right; eauto|discriminate]. }
  destruct hold; [|apply Hcore; exact E].
  destruct (hold_shape _ _ _ _ _ _ _ _ _ Eu U E) as [(p & e & _ & _ & _ & _ & ->)|E']; [left; reflexivity|apply Hcore; exact E'].
Qed.

Lemma owner_ok_set_until c e u : owner_ok c e -> owner_ok c {| e_ip := e_ip e; e_duid := e_duid e; e_until := u; e_perm := e_perm e |}.
Proof. unfold owner_ok. cbn. auto. Qed.

Lemma nth_error_set_until_shape t p u q e' : nth_error (set_until t p u) q = Some e' ->
  exists e, nth_error t q = Some e /\ e_ip e' = e_ip e /\ e_duid e' = e_duid e /\ e_perm e' = e_perm e.
Proof.
  rewrite ClientsProofs.nth_error_set_until. destruct (Nat.eqb q p).
  - destruct (nth_error t q) as [e|]; cbn; [|discriminate]. intros H. injection H as <-. exists e. cbn. auto.
  - intros H. exists e'. auto.
Qed.

Lemma owner_ok_ext c e e' : e_ip e' = e_ip e -> e_duid e' = e_duid e -> e_perm e' = e_perm e -> owner_ok c e -> owner_ok c e'.
Proof. unfold owner_ok. intros -> -> ->. auto. Qed.

Lemma reserve_keeps_SInv c now n d ttl t t' (hold : bool) : unique_live now t -> SInv c t -> to_uip (c_db c) (Some n) = Some n ->
  (if hold then t_hold_client (c_db c) now (Some n) d ttl t else t_update_client (c_db c) now (Some n) d ttl t) = (true, t') ->
  ((exists p e, nth_error t p = Some e /\ e_ip e = n /\ e_duid e = d) \/
   (in_dyn (c_db c) n = true /\ dynamic_disabled (c_db c) = false)) ->
  SInv c t'.
Proof.
  intros U S Eu E Hwhy.
  destruct (reserve_shape _ _ _ _ _ _ _ hold U Eu E) as [->|[(p & u & ->)|(A & B & u & ->)]]; [exact S| |].
  - split.
    + intros q e' Hn. destruct (nth_error_set_until_shape _ _ _ _ _ Hn) as (e & Hne & I & D & P).
      eapply owner_ok_ext; eauto. eapply si_entries; eauto.
    + intros mac ip Hin. destruct (si_perms c t S mac ip Hin) as (q & e & Hn & Hp & Hi & Hd).
      exists q. rewrite ClientsProofs.nth_error_set_until. destruct (Nat.eqb q p); rewrite Hn; cbn; eexists; (split; [reflexivity|]); cbn; auto.
  - assert (Hnew : owner_ok c (new_entry n d u false)).
    { unfold owner_ok. cbn [new_entry e_perm e_ip e_duid].
      assert (Hsep : forall mac ip, In (mac, ip) (perm_pairs c) -> n <> ip /\ d <> sduid mac).
      { intros mac ip Hin. destruct (perm_bound c now t mac ip U S Hin) as [Hb1 Hb2]. split; intros ->.
        - unfold bound_duid in Hb2. rewrite A in Hb2. discriminate.
        - unfold bound_ip in Hb1. rewrite B in Hb1. discriminate. }
      destruct Hwhy as [(q & e & Hn & Hi & Hd)|(Hdy & Hen)]; [|auto].
      pose proof (si_entries c t S q e Hn) as Ho. unfold owner_ok in Ho. destruct (e_perm e) eqn:Hp.
      - exfalso. rewrite find_live_none_iff in A. specialize (A q e (conj Hn (perm_live now e Hp))). cbn in A. rewrite Hi, N.eqb_refl in A. discriminate.
      - rewrite Hi, Hd in Ho. exact Ho. }
    split.
    + intros q e' Hn. destruct (Nat.lt_ge_cases q (length t)) as [Hl|Hg].
      * rewrite nth_error_app1 in Hn by exact Hl. eapply si_entries; eauto.
      * rewrite nth_error_app2 in Hn by exact Hg. destruct (q - length t)%nat as [|k]; cbn in Hn; [|destruct k; discriminate].
        injection Hn as <-. exact Hnew.
    + intros mac ip Hin. destruct (si_perms c t S mac ip Hin) as (q & e & Hn & Hp & Hi & Hd).
      exists q, e. rewrite nth_error_app1 by (apply nth_error_Some; congruence). auto.
Qed.

(* ---------- the invariant along accepted rounds ---------- *)
Definition round_end (r : round) : Z := fold_left Z.max (map of_t (r_outs r)) (r_t r).
Definition WInv (c : scfg) (now : Z) (t : table) : Prop := unique_live now t /\ SInv c t.

Lemma in_managed_to_uip x n : in_managed_range x (Some n) = true -> to_uip x (Some n) = Some n.
Proof.
  unfold in_managed_range. destruct (to_uip x (Some n)) as [m|] eqn:E; [|discriminate]. intros _.
  destruct (to_uip_bound _ _ _ E) as [-> _]. reflexivity.
Qed.

Lemma hold_to_uip x now n d ttl t t' : t_hold_client x now (Some n) d ttl t = (true, t') -> to_uip x (Some n) = Some n.
Proof. intros H. destruct (hold_ok_in_range _ _ _ _ _ _ _ H) as [m Hm]. destruct (to_uip_bound _ _ _ Hm) as [-> _]. exact Hm. Qed.

(* why an offered address may be reserved: the client's own, or one of the dynamic range while searching is enabled *)
Lemma offer_valid_why x t ts sugg d free y tl : offer_valid x t ts sugg d free (Some (y, tl)) = true ->
  (exists p e, live_at ts t p e /\ e_ip e = y /\ e_duid e = d) \/
  (bound_ip ts d t = None /\ in_dyn x y = true /\ dynamic_disabled x = false).
Proof.
  unfold offer_valid. destruct (bound_ip ts d t) as [a|] eqn:Eb.
  - intros H. apply N.eqb_eq in H. subst a. left. apply bound_ip_entry. exact Eb.
  - destruct (dynamic_disabled x); [discriminate|]. intros H. right. split; [reflexivity|]. split; [|reflexivity].
    match type of H with (if ?sf then _ else _) = true => destruct sf eqn:Es end.
    + apply N.eqb_eq in H. subst y. rewrite !andb_true_iff in Es. tauto.
    + rewrite !andb_true_iff in H. tauto.
Qed.

Lemma accepted_round_WInv c now t r t' : WInv c now t -> (now <= r_t r)%Z -> accept_round c t r = RAcc t' ->
  WInv c (round_end r) t' /\ (r_t r <= round_end r)%Z.
Proof.
  intros [U S] Hnow Ha. destruct (accepted_round_cases c t r t' Ha) as [Hcase _].
  assert (Hsilent : r_outs r = [] -> t' = t -> WInv c (round_end r) t' /\ (r_t r <= round_end r)%Z).
  { intros Ho ->. unfold round_end. rewrite Ho. cbn. split; [|lia]. split; [eapply unique_live_mono; eauto|exact S]. }
  assert (Hend : forall f, r_outs r = [f] -> (r_t r <= of_t f)%Z -> round_end r = of_t f).
  { intros f Ho Ht. unfold round_end. rewrite Ho. cbn. lia. }
  destruct Hcase as [? Ho ?|? ? ? ? ? Ho ?|? ? ? ? ? ? Ho ?|? ? ? ? ? o ? ? ? ? ? Ho ?|src dst m ts y f Hdc o tl Hk Hd Hs Ho Hy Hfr Ht Hdl Hts Hle Hov Hh
                    |? ? ? ? o ? ? Ho ?|src dst m desired f Hdc o Hk Hcl Hmr Hb Ho Hfr Ht Hdl ?
                    |src dst m desired f Hdc o Hk Hcl Hmr Hb Hh Hp Ho Hfr Ht Hdl|src dst m desired f t1 Hdc o Hk Hcl Hmr Hb Hh Hp Ho Hfr Ht Hdl Hu]; auto.
  - (* OFFER *)
    rewrite (Hend f Ho Ht). split; [|exact Ht].
    assert (U' : unique_live (of_t f) t) by (eapply unique_live_mono; [|exact U]; lia).
    split; [eapply t_hold_unique; eauto|].
    eapply (reserve_keeps_SInv c (of_t f) y (rc_duid c m) hold_ns t t' true); eauto.
    + eapply hold_to_uip; eauto.
    + destruct (offer_valid_why _ _ _ _ _ _ _ _ Hov) as [(p & e & (Hn & _) & Hi & Hdd)|(_ & A & B)]; [left; eauto|right; auto].
  - (* NAK, not bound *)
    subst t'. rewrite (Hend f Ho Ht). split; [|exact Ht]. split; [eapply unique_live_mono; [|exact U]; lia|exact S].
  - (* NAK, conflict *)
    rewrite (Hend f Ho Ht). split; [|exact Ht].
    assert (U' : unique_live (r_t r) t) by (eapply unique_live_mono; eauto).
    split; [eapply unique_live_mono; [exact Ht|]; eapply t_hold_unique; eauto|].
    eapply (reserve_keeps_SInv c (r_t r) desired (rc_duid c m) req_hold_ns t t' true); eauto.
    + apply in_managed_to_uip; exact Hmr.
    + left. destruct (bound_ip_entry _ _ _ _ Hb) as (p & e & (Hn & _) & Hi & Hdd). eauto.
  - (* ACK *)
    rewrite (Hend f Ho Ht). split; [|exact Ht].
    assert (U0 : unique_live (r_t r) t) by (eapply unique_live_mono; eauto).
    assert (U1 : unique_live (r_t r) t1) by (eapply t_hold_unique; eauto).
    assert (S1 : SInv c t1).
    { eapply (reserve_keeps_SInv c (r_t r) desired (rc_duid c m) req_hold_ns t t1 true); eauto.
      - apply in_managed_to_uip; exact Hmr.
      - left. destruct (bound_ip_entry _ _ _ _ Hb) as (p & e & (Hn & _) & Hi & Hdd). eauto. }
    assert (U2 : unique_live (of_t f) t1) by (eapply unique_live_mono; eauto).
    split; [eapply t_update_unique; eauto|].
    eapply (reserve_keeps_SInv c (of_t f) desired (rc_duid c m) (c_lease c) t1 t' false); eauto.
    + apply in_managed_to_uip; exact Hmr.
    + left. destruct (bound_ip_entry _ _ _ _ Hb) as (p & e & (Hn & _) & Hi & Hdd).
      destruct (t_hold_stable _ _ _ _ _ _ _ _ U0 Hh p e Hn) as (e1 & Hn1 & I1 & D1 & _). exists p, e1. repeat split; congruence.
Qed.

(* ---------- the lease event of an accepted round, as the monitors read it off the frames ---------- *)
Definition lease_event (c : scfg) (r : round) (m : dhcp_msg) (f : out_frame) (ty y : N) : lev :=
  {| le_typ := ty; le_ip := y; le_pid := pid c m (decode_options (d_options m)); le_mac := d_chaddr m; le_arr := r_t r; le_sent := of_t f;
     le_opts := (53, [ty]) :: (54, put32 (c_self_ip c)) :: opts_for c (d_chaddr m) |}.

Lemma round_events_silent c r : r_outs r = [] -> round_events c r = [].
Proof. intros H. unfold round_events. rewrite H. destruct (parse_in (r_pkt r)); reflexivity. Qed.

Lemma round_events_nak c r src dst m f : cfg_wire_ok c -> wf_round r -> decode_chain (r_pkt r) = Some (src, dst, m) ->
  r_outs r = [f] -> frame_eqb f (reply_nak c m) = true -> round_events c r = [].
Proof.
  intros Hc Hw Hdc Ho Hfr. destruct (decode_chain_fields _ _ _ _ Hw Hdc) as (Hx & Hf & Hl & Hwc).
  destruct (nak_frame_parsed c m f Hc Hx Hl Hwc Hfr) as (p & Hpo & P). destruct Hc as (Hs & _).
  destruct (reply_opts_view gf_dhcpmsg_MsgTypeNack (c_self_ip c) [] Hs eq_refl) as [Vt _].
  unfold round_events. rewrite (parse_in_of _ _ _ _ Hdc), Ho. cbn [flat_map]. rewrite Hpo.
  assert (Htyp : typ p = 6) by (unfold typ; rewrite (pr_opt _ _ _ _ _ _ P); exact Vt).
  unfold is_lease_reply. rewrite Htyp. reflexivity.
Qed.

Lemma round_events_lease c r src dst m f ty y : cfg_wire_ok c -> wf_round r -> decode_chain (r_pkt r) = Some (src, dst, m) ->
  r_outs r = [f] -> y < 4294967296 -> ty = 2 \/ ty = 5 -> frame_eqb f (reply_lease c ty m y) = true ->
  round_events c r = [lease_event c r m f ty y].
Proof.
  intros Hc Hw Hdc Ho Hy Hty Hfr. destruct (decode_chain_fields _ _ _ _ Hw Hdc) as (Hx & Hf & Hl & Hwc).
  assert (Ht : ty < 256) by (destruct Hty; subst; lia).
  destruct (lease_frame_parsed c ty m y f Hc Hx Hf Hl Hwc Hy Ht Hfr) as (p & Hpo & P).
  pose proof (opts_for_ok c (d_chaddr m) Hc) as Hok. unfold opts_ok in Hok. rewrite !andb_true_iff in Hok. destruct Hok as (((_ & _) & Hnr) & _).
  destruct Hc as (Hs & _).
  destruct (reply_opts_view ty (c_self_ip c) (opts_for c (d_chaddr m)) Hs Hnr) as [Vt _].
  unfold round_events. rewrite (parse_in_of _ _ _ _ Hdc), Ho. cbn [flat_map]. rewrite Hpo.
  assert (Htyp : typ p = ty) by (unfold typ; rewrite (pr_opt _ _ _ _ _ _ P); exact Vt).
  unfold is_lease_reply. rewrite Htyp. replace ((ty =? 2) || (ty =? 5)) with true by (destruct Hty; subst; reflexivity).
  rewrite app_nil_r. unfold lease_event. cbn [pi_msg pi_opt]. rewrite (pr_msg _ _ _ _ _ _ P), (pr_t _ _ _ _ _ _ P). reflexivity.
Qed.

Lemma bound_is_own now d t a p e : unique_live now t -> bound_ip now d t = Some a ->
  nth_error t p = Some e -> e_duid e = d -> live now e = true -> e_ip e = a.
Proof.
  intros U Hb Hn Hd Hl. destruct (bound_ip_entry _ _ _ _ Hb) as (p' & e' & (Hn' & Hl') & Hi' & Hd').
  assert (p = p') by (apply (U (KDuid d) p p' e e'); auto; cbn; apply bytes_eqb_eq; auto). subst p'. congruence.
Qed.

(* what an accepted round that carries an OFFER or ACK says and does: the single event, and the reservation behind it *)
Lemma accepted_round_event c now t r t' : cfg_wire_ok c -> wf_round r -> WInv c now t -> (now <= r_t r)%Z -> accept_round c t r = RAcc t' ->
  round_events c r = [] \/
  exists src dst m f ty y, decode_chain (r_pkt r) = Some (src, dst, m) /\ msg_kind c m (decode_options (d_options m)) <> KIgnored /\
    r_outs r = [f] /\ (r_t r <= of_t f)%Z /\ (ty = 2 \/ ty = 5) /\ round_events c r = [lease_event c r m f ty y] /\
    not_others (of_t f) t y (rc_duid c m) /\
    reserved_in t' y (rc_duid c m) (of_t f + (if (ty =? 2)%N then hold_ns else c_lease c))%Z /\
    (* the client's own: a binding of this client that is live when the reply leaves is a binding of this very address *)
    (forall p e, nth_error t p = Some e -> e_duid e = rc_duid c m -> live (of_t f) e = true -> e_ip e = y).
Proof.
  intros Hc Hw [U S] Hnow Ha. destruct (accepted_round_cases c t r t' Ha) as [Hcase _].
  destruct Hcase as [? Ho ?|? ? ? ? ? Ho ?|? ? ? ? ? ? Ho ?|? ? ? ? ? o ? ? ? ? ? Ho ?|src dst m ts y f Hdc o tl Hk Hd Hs Ho Hy Hfr Ht Hdl Hts Hle Hov Hh
                    |? ? ? ? o ? ? Ho ?|src dst m desired f Hdc o Hk Hcl Hmr Hb Ho Hfr Ht Hdl ?
                    |src dst m desired f Hdc o Hk Hcl Hmr Hb Hh Hp Ho Hfr Ht Hdl|src dst m desired f t1 Hdc o Hk Hcl Hmr Hb Hh Hp Ho Hfr Ht Hdl Hu];
    try (left; apply round_events_silent; assumption); try (left; eapply round_events_nak; eassumption).
  - right. pose proof (hold_to_uip _ _ _ _ _ _ _ Hh) as Eu. destruct (to_uip_bound _ _ _ Eu) as [_ Hbd].
    assert (Hyb : y < 4294967296) by (destruct Hc as (_ & Hc2 & _); lia).
    assert (U' : unique_live (of_t f) t) by (eapply unique_live_mono; [|exact U]; lia).
    destruct (hold_effect _ _ _ _ _ _ _ _ _ Eu U' Hh) as (_ & _ & He). destruct (He eq_refl) as [Hno Hres].
    assert (Hown : forall p e, nth_error t p = Some e -> e_duid e = rc_duid c m -> live (of_t f) e = true -> e_ip e = y).
    { intros p e Hn Hdd Hl. assert (Uts : unique_live ts t) by (eapply unique_live_mono; [|exact U]; destruct Hts; subst; lia).
      assert (Hlts : live ts e = true) by (eapply live_mono; eauto).
      unfold offer_valid in Hov. destruct (bound_ip ts (rc_duid c m) t) as [a|] eqn:Eb.
      - apply N.eqb_eq in Hov. subst a. eapply bound_is_own; eauto.
      - exfalso. unfold bound_ip in Eb. destruct (find_live ts (KDuid (rc_duid c m)) t 0) as [q|] eqn:Ef.
        + apply find_live_some in Ef as (_ & e0 & Hn0 & _). rewrite Nat.sub_0_r in Hn0. rewrite Hn0 in Eb. discriminate.
        + rewrite find_live_none_iff in Ef. specialize (Ef p e (conj Hn Hlts)). cbn in Ef. rewrite Hdd, beqb_refl in Ef. discriminate. }
    exists src, dst, m, f, 2, y. repeat split; auto.
    + fold o. rewrite Hk. discriminate.
    + eapply round_events_lease; eauto.
  - right. pose proof (in_managed_to_uip _ _ Hmr) as Eu. destruct (to_uip_bound _ _ _ Eu) as [_ Hbd].
    assert (Hyb : desired < 4294967296) by (destruct Hc as (_ & Hc2 & _); lia).
    assert (U0 : unique_live (r_t r) t) by (eapply unique_live_mono; eauto).
    assert (U1 : unique_live (r_t r) t1) by (eapply t_hold_unique; eauto).
    assert (U2 : unique_live (of_t f) t1) by (eapply unique_live_mono; eauto).
    exists src, dst, m, f, 5, desired.
    assert (Hres : not_others (of_t f) t1 desired (rc_duid c m) /\ reserved_in t' desired (rc_duid c m) (of_t f + c_lease c)%Z).
    { pose proof (t_update_spec _ _ _ _ _ _ _ _ U2 Hu) as Sp. rewrite Eu in Sp.
      destruct Sp as [(p & e & (Hn & Hl) & Hi & Hdd & _ & ->)|[(A & B & -> & _)|(_ & _ & Hfalse & _)]]; [| |discriminate].
      - split.
        + intros q e' (Hn' & Hl') Hi'. assert (q = p) by (apply (U2 (KIp desired) q p e' e); auto; cbn; apply N.eqb_eq; auto). subst q. congruence.
        + exists p. eexists. rewrite ClientsProofs.nth_error_set_until, Nat.eqb_refl, Hn. cbn. split; [reflexivity|]. cbn. repeat split; auto. right. lia.
      - split.
        + intros q e' L' Hi'. exfalso. rewrite find_live_none_iff in A. specialize (A q e' L'). cbn in A. apply N.eqb_neq in A. contradiction.
        + exists (length t1). eexists. rewrite nth_error_app2, Nat.sub_diag by lia. cbn. split; [reflexivity|]. cbn. repeat split; auto. right. lia. }
    assert (Hown : forall p e, nth_error t p = Some e -> e_duid e = rc_duid c m -> live (of_t f) e = true -> e_ip e = desired).
    { intros p e Hn Hdd Hl. apply (bound_is_own (r_t r) (rc_duid c m) t desired p e U0 Hb Hn Hdd). eapply live_mono; eauto. }
    destruct Hres as [Hno1 Hres]. repeat split; auto.
    + fold o. rewrite Hk. discriminate.
    + eapply round_events_lease; eauto.
    + (* nobody else held the address in t either: entries only grow from t to t1 *)
      intros q e (Hn & Hl) Hi.
      destruct (hold_effect _ _ _ _ _ _ _ _ _ Eu U0 Hh) as (Hg & _ & _).
      destruct (Hg q e Hn) as (e1 & Hn1 & I1 & D1 & P1 & Hu1).
      rewrite <- D1. apply (Hno1 q e1); [|congruence]. split; [exact Hn1|].
      unfold live, expired in *. rewrite P1. destruct (e_perm e) eqn:Hpe; [reflexivity|]. cbn in *. specialize (Hu1 eq_refl). lia.
Qed.

(* ---------- C02 / C03 (safety) on the wire ---------- *)
Lemma assoc_some_in {A} k (l : list (bytes * A)) v : assoc k l = Some v -> In (k, v) l.
Proof.
  induction l as [|[k' v'] l IH]; cbn; [discriminate|]. destruct (bytes_eqb k k') eqn:E.
  - intros H. injection H as <-. apply bytes_eqb_eq in E. subst k'. left. reflexivity.
  - intros H. right. apply IH. exact H.
Qed.
Lemma assoc_none_notin {A} k (l : list (bytes * A)) : assoc k l = None -> forall v, ~ In (k, v) l.
Proof.
  induction l as [|[k' v'] l IH]; cbn; [auto|]. destruct (bytes_eqb k k') eqn:E; [discriminate|].
  intros H v [Heq|Hin]; [|eapply IH; eauto]. injection Heq as -> ->. rewrite beqb_refl in E. discriminate.
Qed.

Lemma nodup_fst_functional {A B} (l : list (A * B)) a b1 b2 : NoDup (map fst l) -> In (a, b1) l -> In (a, b2) l -> b1 = b2.
Proof.
  induction l as [|[a' b'] l IH]; cbn; [tauto|]. intros Hnd [H1|H1] [H2|H2]; inversion Hnd; subst.
  - congruence.
  - injection H1 as -> ->. exfalso. apply H3. eapply in_map_fst; eauto.
  - injection H2 as -> ->. exfalso. apply H3. eapply in_map_fst; eauto.
  - eapply IH; eauto.
Qed.
Lemma nodup_snd_functional {A B} (l : list (A * B)) a1 a2 b : NoDup (map snd l) -> In (a1, b) l -> In (a2, b) l -> a1 = a2.
Proof.
  induction l as [|[a' b'] l IH]; cbn; [tauto|]. intros Hnd [H1|H1] [H2|H2]; inversion Hnd; subst.
  - congruence.
  - injection H1 as -> ->. exfalso. apply H3. eapply in_map_snd; eauto.
  - injection H2 as -> ->. exfalso. apply H3. eapply in_map_snd; eauto.
  - eapply IH; eauto.
Qed.

Lemma self_pair c : In (c_self_mac c, c_self_ip c) (perm_pairs c).
Proof. unfold perm_pairs. apply in_or_app. right. left. reflexivity. Qed.
Lemma static_pair c mac ip : In (mac, ip) (c_statics c) -> In (mac, ip) (perm_pairs c).
Proof. intros H. unfold perm_pairs. apply in_or_app. left. exact H. Qed.

(* what the owner of an entry can be, given who asked *)
Definition addr_allowed (c : scfg) (mac : bytes) (y : N) : Prop :=
  net_from (c_db c) <= y <= net_to (c_db c) /\ y <> c_self_ip c /\
  match reserved_ip c mac with
  | Some s => y = s
  | None => in_dyn (c_db c) y = true /\ dynamic_disabled (c_db c) = false /\ forall mac' ip, In (mac', ip) (perm_pairs c) -> y <> ip
  end.

Lemma entry_addr_allowed c t mac cid y : cfg_srv_ok c -> SInv c t -> mac <> c_self_mac c ->
  (exists p e, nth_error t p = Some e /\ e_ip e = y /\ e_duid e = get_duid c mac cid) -> addr_allowed c mac y.
Proof.
  intros Hc S Hself (p & e & Hn & Hi & Hd).
  pose proof (si_entries c t S p e Hn) as Ho. unfold owner_ok in Ho. rewrite Hi, Hd in Ho.
  unfold addr_allowed, get_duid in *. destruct (reserved_ip c mac) as [s|] eqn:Er.
  - apply assoc_some_in in Er. apply static_pair in Er.
    destruct (e_perm e).
    + destruct Ho as (mac' & Hin & Hdd). apply sduid_inj in Hdd. subst mac'.
      assert (Hys : y = s) by (eapply nodup_fst_functional; [exact (cs_macs c Hc)| |]; eauto). clear Hi Hn. subst s.
      split; [eapply cs_range; eauto|]. split; [|reflexivity].
      intros Heq. apply Hself. eapply nodup_snd_functional; [exact (cs_ips c Hc)|exact Er|]. rewrite Heq. apply self_pair.
    + destruct Ho as (_ & _ & Hsep). destruct (Hsep mac s Er) as [_ Hne]. exfalso. apply Hne. reflexivity.
  - pose proof (assoc_none_notin _ _ Er) as Hnot.
    destruct (e_perm e).
    + exfalso. destruct Ho as (mac' & Hin & Hdd).
      destruct ((len cid <? 4) || internal_prefix cid) eqn:Ecid.
      * apply sduid_inj in Hdd. subst mac'. unfold perm_pairs in Hin. apply in_app_or in Hin as [Hin|[Hin|[]]].
        -- eapply Hnot; eauto.
        -- injection Hin as Hm _. apply Hself. symmetry. exact Hm.
      * apply orb_false_iff in Ecid as [_ Hip]. rewrite Hdd, internal_prefix_sduid in Hip. discriminate.
    + destruct Ho as (Hdy & Hen & Hsep). split.
      * destruct (cs_dyn c Hc Hen) as [A B]. unfold in_dyn in Hdy. lia.
      * split; [intros Heq; destruct (Hsep _ _ (self_pair c)) as [Hne _]; contradiction|].
        split; [exact Hdy|]. split; [exact Hen|]. intros mac' ip Hin. destruct (Hsep mac' ip Hin) as [Hne _]. exact Hne.
Qed.

Lemma not_ignored_mac c m o : msg_kind c m o <> KIgnored -> d_chaddr m <> c_self_mac c.
Proof.
  unfold msg_kind. destruct (bytes_eqb (c_self_mac c) (d_chaddr m)) eqn:E; [intros H; exfalso; apply H; reflexivity|].
  intros _ Heq. rewrite Heq, beqb_refl in E. discriminate.
Qed.

Definition c02_event (c : scfg) (e : lev) : bool :=
  let y := le_ip e in
  (net_from (c_db c) <=? y) && (y <=? net_to (c_db c)) && negb (y =? c_self_ip c) &&
  (match reserved_ip c (le_mac e) with Some s => s =? y | None => false end || in_dyn (c_db c) y) &&
  (negb (dynamic_disabled (c_db c)) || negb (is_none (reserved_ip c (le_mac e)))).

Definition c03_event (c : scfg) (e : lev) : bool :=
  match reserved_ip c (le_mac e) with Some s => le_ip e =? s | None => negb (is_reserved_addr c (le_ip e)) end.

Lemma addr_allowed_c02 c mac y ev : le_ip ev = y -> le_mac ev = mac -> addr_allowed c mac y -> c02_event c ev = true /\ c03_event c ev = true.
Proof.
  intros <- <- (Hr & Hs & Hm). unfold c02_event, c03_event.
  replace (net_from (c_db c) <=? le_ip ev) with true by lia. replace (le_ip ev <=? net_to (c_db c)) with true by lia.
  replace (le_ip ev =? c_self_ip c) with false by lia. cbn [andb negb].
  destruct (reserved_ip c (le_mac ev)) as [s|].
  - subst s. rewrite N.eqb_refl. cbn. rewrite orb_true_r. split; reflexivity.
  - destruct Hm as (Hd & He & Hsep). rewrite Hd, He. cbn. split; [reflexivity|].
    apply negb_true_iff. unfold is_reserved_addr. apply not_true_iff_false. intros Hex. apply existsb_exists in Hex as ([mac' ip] & Hin & Heq).
    cbn in Heq. apply N.eqb_eq in Heq. subst ip. eapply Hsep; [apply static_pair; exact Hin|reflexivity].
Qed.

(* every OFFER and ACK of an accepted round carries an address the configuration allows for that hardware address *)
Lemma accepted_round_c02 c now t r t' : cfg_wire_ok c -> cfg_srv_ok c -> wf_round r -> WInv c now t -> (now <= r_t r)%Z ->
  accept_round c t r = RAcc t' -> forallb (c02_event c) (round_events c r) = true /\ forallb (c03_event c) (round_events c r) = true.
Proof.
  intros Hcw Hcs Hw Hinv Hnow Ha.
  destruct (accepted_round_WInv c now t r t' Hinv Hnow Ha) as [[_ S'] _].
  destruct (accepted_round_event c now t r t' Hcw Hw Hinv Hnow Ha) as [->|(src & dst & m & f & ty & y & Hdc & Hk & Ho & Ht & Hty & -> & _ & Hres & _)]; [split; reflexivity|].
  cbn [forallb]. rewrite !andb_true_r.
  apply (addr_allowed_c02 c (d_chaddr m) y); [reflexivity|reflexivity|].
  eapply entry_addr_allowed; eauto; [eapply not_ignored_mac; eauto|].
  destruct Hres as (p & e & Hn & Hi & Hd & _). exists p, e. unfold rc_duid in Hd. eauto.
Qed.

(* ---------- C03 (response): a reserved client's broadcast DISCOVER is answered with its address ---------- *)
Definition c03_round (c : scfg) (r : round) : bool :=
  match parse_in (r_pkt r) with
  | Some i =>
    match reserved_ip c (d_chaddr (pi_msg i)) with
    | Some s =>
      if (o_msgtype (pi_opt i) =? 1) && (pi_dst i =? bcast_ip) && is_none (o_sid (pi_opt i)) &&
         negb (bytes_eqb (d_chaddr (pi_msg i)) (c_self_mac c))
      then existsb (fun f => match parse_out f with Some p => (typ p =? 2) && (d_yiaddr (po_msg p) =? s) | None => false end) (r_outs r)
      else true
    | None => true end
  | None => true end.

Lemma bytes_eqb_sym' a b : bytes_eqb a b = bytes_eqb b a.
Proof.
  destruct (bytes_eqb a b) eqn:E1, (bytes_eqb b a) eqn:E2; auto.
  - apply bytes_eqb_eq in E1. subst. rewrite beqb_refl in E2. discriminate.
  - apply bytes_eqb_eq in E2. subst. rewrite beqb_refl in E1. discriminate.
Qed.

Lemma accepted_round_c03 c now t r t' : cfg_wire_ok c -> cfg_srv_ok c -> wf_round r -> WInv c now t -> (now <= r_t r)%Z ->
  accept_round c t r = RAcc t' -> c03_round c r = true.
Proof.
  intros Hcw Hcs Hw [U S] Hnow Ha. unfold c03_round.
  destruct (parse_in (r_pkt r)) as [i|] eqn:Epi; [|reflexivity].
  destruct (reserved_ip c (d_chaddr (pi_msg i))) as [s|] eqn:Er; [|reflexivity].
  match goal with |- (if ?b then _ else _) = true => destruct b eqn:Econd; [|reflexivity] end.
  rewrite !andb_true_iff in Econd. destruct Econd as (((Hmt & Hdst) & Hsid) & Hnself).
  unfold parse_in in Epi. destruct (decode_chain (r_pkt r)) as [[[src dst] m]|] eqn:Hdc; [|discriminate]. injection Epi as <-.
  cbn [pi_msg pi_opt pi_dst] in *. apply N.eqb_eq in Hmt, Hdst. subst dst.
  set (o := decode_options (d_options m)) in *.
  assert (Hkind : msg_kind c m o = KDiscover).
  { unfold msg_kind. rewrite bytes_eqb_sym'. apply negb_true_iff in Hnself. rewrite Hnself. unfold gf_dhcpmsg_MsgTypeDiscover. rewrite Hmt. reflexivity. }
  assert (Hd : rc_duid c m = sduid (d_chaddr m)) by (unfold rc_duid; eapply reserved_identity; eauto).
  assert (Hpair : In (d_chaddr m, s) (perm_pairs c)) by (apply static_pair; apply assoc_some_in; exact Er).
  assert (Hbound : forall ts, (r_t r <= ts)%Z -> bound_ip ts (rc_duid c m) t = Some s).
  { intros ts Hts. rewrite Hd. eapply (proj1 (perm_bound c ts t _ _ _ S Hpair)). Unshelve. eapply unique_live_mono; [|exact U]. lia. }
  destruct (accepted_round_cases c t r t' Ha) as [Hcase _].
  destruct Hcase as [Hdc' ? ?|? ? ? Hdc' Hk' ? ?|? ? ? Hdc' Hk' Hdrop ? ?|? ? ? ts Hdc' o' Hk' ? Hs' Hts Hov ? ?|src' dst' m' ts y f Hdc' o' tl Hk' Hd' Hs' Ho Hy Hfr Ht Hdl Hts Hle Hov Hh
                    |? ? ? Hdc' o' Hk' ? ? ?|? ? ? ? ? Hdc' o' Hk' ? ? ? ? ? ? ?
                    |? ? ? ? ? Hdc' o' Hk' ? ? ? ? ? ? ? ?|? ? ? ? ? ? Hdc' o' Hk' ? ? ? ? ? ? ? ? ?];
    rewrite Hdc in Hdc'; try discriminate Hdc'; injection Hdc' as <- <- <-; try (exfalso; match type of Hk' with _ = ?K => assert (Hx' : KDiscover = K) by (rewrite <- Hkind; exact Hk') end; discriminate Hx').
  - (* dropped: impossible, broadcast without server identifier *)
    exfalso. fold o in Hdrop. destruct Hdrop as [Hx|Hx]; [rewrite N.eqb_refl in Hx; discriminate|]. destruct (o_sid o); [discriminate Hsid|apply Hx; reflexivity].
  - (* silence: impossible, the reserved client is bound *)
    exfalso. unfold offer_valid in Hov. rewrite Hbound in Hov by (destruct Hts; subst; lia). discriminate.
  - (* OFFER of the reserved address *)
    assert (Hys : y = s).
    { unfold offer_valid in Hov. rewrite Hbound in Hov by (destruct Hts; subst; lia). apply N.eqb_eq in Hov. exact Hov. }
    subst y. rewrite Ho. cbn [existsb]. rewrite orb_false_r.
    destruct (decode_chain_fields _ _ _ _ Hw Hdc) as (Hx & Hf & Hl & Hwc).
    pose proof (hold_to_uip _ _ _ _ _ _ _ Hh) as Eu. destruct (to_uip_bound _ _ _ Eu) as [_ Hbd].
    assert (Hyb : s < 4294967296) by (destruct Hcw as (_ & Hc2 & _); lia).
    destruct (lease_frame_parsed c 2 m s f Hcw Hx Hf Hl Hwc Hyb eq_refl Hfr) as (p & Hpo & P). rewrite Hpo.
    pose proof (opts_for_ok c (d_chaddr m) Hcw) as Hok. unfold opts_ok in Hok. rewrite !andb_true_iff in Hok. destruct Hok as (((_ & _) & Hnr) & _).
    destruct Hcw as (Hself & _).
    destruct (reply_opts_view 2 (c_self_ip c) (opts_for c (d_chaddr m)) Hself Hnr) as [Vt _].
    assert (Htyp : typ p = 2) by (unfold typ; rewrite (pr_opt _ _ _ _ _ _ P); exact Vt).
    rewrite Htyp, (pr_msg _ _ _ _ _ _ P). cbn. apply N.eqb_refl.
Qed.

(* ---------- histories ---------- *)
Fixpoint seq_times (now : Z) (h : list round) : Prop :=
  match h with [] => True | r :: rest => (now <= r_t r)%Z /\ seq_times (round_end r) rest end.

Lemma forallb_flat_map {A B} (P : B -> bool) (f : A -> list B) l : forallb P (flat_map f l) = forallb (fun a => forallb P (f a)) l.
Proof. induction l as [|a l IH]; [reflexivity|]. cbn. rewrite forallb_app, IH. reflexivity. Qed.

(* induction over an accepted history with the table invariant *)
Lemma accepted_history_rounds c (Q : round -> bool) :
  (forall now t r t', WInv c now t -> (now <= r_t r)%Z -> wf_round r -> accept_round c t r = RAcc t' -> Q r = true) ->
  forall h now t, WInv c now t -> Forall wf_round h -> seq_times now h -> acc_run c t h -> forallb Q h = true.
Proof.
  intros HQ. induction h as [|r h IH]; intros now t Hinv Hw Hs Ha; [reflexivity|].
  cbn [acc_run] in Ha. destruct Ha as (t' & Ha & Hrest). destruct Hs as [Hnow Hs]. inversion Hw; subst. cbn [forallb].
  rewrite (HQ now t r t' Hinv Hnow H1 Ha). cbn [andb].
  destruct (accepted_round_WInv c now t r t' Hinv Hnow Ha) as [Hinv' _]. eapply IH; eauto.
Qed.

Lemma initial_WInv c : cfg_srv_ok c -> WInv c 0%Z (initial_table c).
Proof. intros Hc. split; [apply (initial_table_ok c)|apply initial_SInv; exact Hc]. Qed.

Theorem accepted_history_c02 c h : cfg_wire_ok c -> cfg_srv_ok c -> Forall wf_round h -> seq_times 0%Z h -> accepted c h -> mon_C02 c h = true.
Proof.
  intros Hcw Hcs Hw Hs Ha. apply accepted_acc_run in Ha.
  change (mon_C02 c h) with (forallb (c02_event c) (events c h)). unfold events. rewrite forallb_flat_map.
  eapply (accepted_history_rounds c (fun r => forallb (c02_event c) (round_events c r))); eauto; [|apply initial_WInv; exact Hcs].
  intros now t r t' Hinv Hnow Hwr Har. exact (proj1 (accepted_round_c02 c now t r t' Hcw Hcs Hwr Hinv Hnow Har)).
Qed.

Theorem accepted_history_c03 c h : cfg_wire_ok c -> cfg_srv_ok c -> Forall wf_round h -> seq_times 0%Z h -> accepted c h -> mon_C03 c h = true.
Proof.
  intros Hcw Hcs Hw Hs Ha. apply accepted_acc_run in Ha. unfold mon_C03. apply andb_true_iff. split.
  - change (forallb (c03_event c) (events c h) = true). unfold events. rewrite forallb_flat_map.
    eapply (accepted_history_rounds c (fun r => forallb (c03_event c) (round_events c r))); eauto; [|apply initial_WInv; exact Hcs].
    intros now t r t' Hinv Hnow Hwr Har. exact (proj2 (accepted_round_c02 c now t r t' Hcw Hcs Hwr Hinv Hnow Har)).
  - change (forallb (c03_round c) h = true).
    eapply (accepted_history_rounds c (c03_round c)); eauto; [|apply initial_WInv; exact Hcs].
    intros now t r t' Hinv Hnow Hwr Har. exact (accepted_round_c03 c now t r t' Hcw Hcs Hwr Hinv Hnow Har).
Qed.

(* ---------- with bounded expiries: entries only grow along accepted rounds ---------- *)
Definition durations_ok (c : scfg) : Prop := (0 <= hold_ns <= c_lease c)%Z /\ (0 <= req_hold_ns <= c_lease c)%Z.
Definition TInv (c : scfg) (now : Z) (t : table) : Prop := WInv c now t /\ upper (now + c_lease c)%Z t.

Lemma initial_TInv c : cfg_srv_ok c -> TInv c 0%Z (initial_table c).
Proof.
  intros Hc. split; [apply initial_WInv; exact Hc|]. destruct (initial_table_ok c) as [_ A].
  intros q e Hn Hp. rewrite (A q e Hn) in Hp. discriminate.
Qed.

Lemma accepted_round_TInv c now t r t' : durations_ok c -> TInv c now t -> (now <= r_t r)%Z -> accept_round c t r = RAcc t' ->
  TInv c (round_end r) t' /\ grows t t'.
Proof.
  intros [[Hh0 Hh1] [Hq0 Hq1]] [Hinv Hup] Hnow Ha.
  destruct (accepted_round_WInv c now t r t' Hinv Hnow Ha) as [Hinv' Hend']. split; [split; [exact Hinv'|]|].
  all: destruct Hinv as [U S]; destruct (accepted_round_cases c t r t' Ha) as [Hcase _].
  all: assert (Hend : forall f, r_outs r = [f] -> (r_t r <= of_t f)%Z -> round_end r = of_t f) by (intros f Ho Ht; unfold round_end; rewrite Ho; cbn; lia).
  all: assert (Hsil : r_outs r = [] -> round_end r = r_t r) by (intros Ho; unfold round_end; rewrite Ho; reflexivity).
  all: destruct Hcase as [? Ho ?|? ? ? ? ? Ho ?|? ? ? ? ? ? Ho ?|? ? ? ? ? o ? ? ? ? ? Ho ?|src dst m ts y f Hdc o tl Hk Hd Hs Ho Hy Hfr Ht Hdl Hts Hle Hov Hh
                    |? ? ? ? o ? ? Ho ?|src dst m desired f Hdc o Hk Hcl Hmr Hb Ho Hfr Ht Hdl ?
                    |src dst m desired f Hdc o Hk Hcl Hmr Hb Hh Hp Ho Hfr Ht Hdl|src dst m desired f t1 Hdc o Hk Hcl Hmr Hb Hh Hp Ho Hfr Ht Hdl Hu];
    subst; try (rewrite (Hsil Ho); eapply upper_mono; [|exact Hup]; lia); try apply grows_refl.
  - (* OFFER: upper *)
    rewrite (Hend f Ho Ht). pose proof (hold_to_uip _ _ _ _ _ _ _ Hh) as Eu.
    assert (U' : unique_live (of_t f) t) by (eapply unique_live_mono; [|exact U]; lia).
    destruct (hold_effect _ _ _ _ _ _ _ _ _ Eu U' Hh) as (_ & Hu' & _). apply Hu'; [eapply upper_mono; [|exact Hup]; lia|lia].
  - rewrite (Hend f Ho Ht). eapply upper_mono; [|exact Hup]. lia.
  - (* NAK on conflict: upper *)
    rewrite (Hend f Ho Ht). pose proof (in_managed_to_uip _ _ Hmr) as Eu.
    assert (U' : unique_live (r_t r) t) by (eapply unique_live_mono; eauto).
    destruct (hold_effect _ _ _ _ _ _ _ _ _ Eu U' Hh) as (_ & Hu' & _).
    eapply upper_mono; [|apply (Hu' (r_t r + c_lease c)%Z); [eapply upper_mono; [|exact Hup]; lia|lia]]. lia.
  - (* ACK: upper *)
    rewrite (Hend f Ho Ht). pose proof (in_managed_to_uip _ _ Hmr) as Eu.
    assert (U0 : unique_live (r_t r) t) by (eapply unique_live_mono; eauto).
    assert (U1 : unique_live (r_t r) t1) by (eapply t_hold_unique; eauto).
    assert (U2 : unique_live (of_t f) t1) by (eapply unique_live_mono; eauto).
    destruct (hold_effect _ _ _ _ _ _ _ _ _ Eu U0 Hh) as (_ & Hu1 & _).
    assert (Up1 : upper (of_t f + c_lease c)%Z t1).
    { eapply upper_mono; [|apply (Hu1 (r_t r + c_lease c)%Z); [eapply upper_mono; [|exact Hup]; lia|lia]]. lia. }
    assert (Hmono : forall p e, live_at (of_t f) t1 p e -> e_ip e = desired -> e_duid e = rc_duid c m -> e_perm e = false -> (e_until e <= of_t f + c_lease c)%Z).
    { intros p e (Hn & _) _ _ Hp'. exact (Up1 p e Hn Hp'). }
    destruct (update_effect _ _ _ _ _ _ _ _ _ Eu U2 Hmono Hu) as (_ & Hu2 & _). apply Hu2; [exact Up1|lia].
  - (* OFFER: grows *)
    pose proof (hold_to_uip _ _ _ _ _ _ _ Hh) as Eu.
    assert (U' : unique_live (of_t f) t) by (eapply unique_live_mono; [|exact U]; lia).
    destruct (hold_effect _ _ _ _ _ _ _ _ _ Eu U' Hh) as (Hg & _ & _). exact Hg.
  - (* NAK on conflict: grows *)
    pose proof (in_managed_to_uip _ _ Hmr) as Eu.
    assert (U' : unique_live (r_t r) t) by (eapply unique_live_mono; eauto).
    destruct (hold_effect _ _ _ _ _ _ _ _ _ Eu U' Hh) as (Hg & _ & _). exact Hg.
  - (* ACK: grows *)
    pose proof (in_managed_to_uip _ _ Hmr) as Eu.
    assert (U0 : unique_live (r_t r) t) by (eapply unique_live_mono; eauto).
    assert (U1 : unique_live (r_t r) t1) by (eapply t_hold_unique; eauto).
    assert (U2 : unique_live (of_t f) t1) by (eapply unique_live_mono; eauto).
    destruct (hold_effect _ _ _ _ _ _ _ _ _ Eu U0 Hh) as (Hg1 & Hu1 & _).
    assert (Up1 : upper (of_t f + c_lease c)%Z t1).
    { eapply upper_mono; [|apply (Hu1 (r_t r + c_lease c)%Z); [eapply upper_mono; [|exact Hup]; lia|lia]]. lia. }
    assert (Hmono : forall p e, live_at (of_t f) t1 p e -> e_ip e = desired -> e_duid e = rc_duid c m -> e_perm e = false -> (e_until e <= of_t f + c_lease c)%Z).
    { intros p e (Hn & _) _ _ Hp'. exact (Up1 p e Hn Hp'). }
    destruct (update_effect _ _ _ _ _ _ _ _ _ Eu U2 Hmono Hu) as (Hg2 & _ & _). eapply grows_trans; eauto.
Qed.
