(* The option-list premises of the wire-level theorems hold of every configuration the model of server.New accepts:
   what dhcpOptions builds (C07: effective_options = expected_options) fits an option area, does not carry the two options the
   reply constructors add, advertises the whole seconds of the lease the database reserves, and carries a netmask. *)
From PSA Require Import gen.GoFacts model.Bytes model.Dhcp model.Clients model.Ipdb spec.SpecTable model.Server model.Config spec.SpecConfig
  proofs.ChecksumProofs proofs.LayerProofs proofs.DhcpProofs proofs.ServerProofs proofs.ConfigProofs proofs.WireProofs.
From Coq Require Import ZifyN ZifyNat ZifyBool.
Open Scope N_scope.

Definition opt_fine (o : dhcp_opt) : bool := wf_opt o && wf_opt_bytes o && no_reply_codes o.

Lemma opts_ok_of os : forallb opt_fine os = true -> (length os <= 7)%nat -> opts_ok os = true.
Proof.
  intros Hf Hl. unfold opts_ok.
  assert (H3 : forallb wf_opt os = true /\ forallb wf_opt_bytes os = true /\ forallb no_reply_codes os = true /\
               len (flat_map enc_opt os) <= 257 * N.of_nat (length os)).
  { clear Hl. induction os as [|o os IH]; [cbn; repeat split; lia|]. cbn [forallb] in Hf. apply andb_true_iff in Hf as [Ho Hr].
    destruct (IH Hr) as (A & B & C & D). unfold opt_fine in Ho. rewrite !andb_true_iff in Ho. destruct Ho as ((O1 & O2) & O3).
    cbn [forallb flat_map]. rewrite O1, O2, O3, A, B, C. repeat split; auto.
    rewrite len_app. unfold enc_opt at 1. unfold wf_opt in O1. rewrite !andb_true_iff in O1. destruct O1 as ((_ & _) & O1l).
    unfold len in *. cbn [length]. lia. }
  destruct H3 as (A & B & C & D). rewrite A, B, C. cbn [andb]. apply N.leb_le. lia.
Qed.

Lemma wf_flat_put32 l : wf_bytes (flat_map put32 l) = true.
Proof. induction l as [|x l IH]; [reflexivity|]. cbn [flat_map]. apply wf_bytes_app. split; [apply wf_put32|exact IH]. Qed.

Lemma fine_addr code a : code <> 0 -> code < 255 -> code <> 53 -> code <> 54 -> forallb opt_fine (opt_addr code a) = true.
Proof.
  intros H0 H1 H2 H3. destruct a as [x|]; [|reflexivity]. unfold opt_addr, opt_fine, wf_opt, wf_opt_bytes, no_reply_codes. cbn [forallb fst snd].
  rewrite wf_put32. unfold put32, len. cbn [length]. rewrite !andb_true_iff. repeat split; lia.
Qed.

Lemma fine_addrs code l : code <> 0 -> code < 255 -> code <> 53 -> code <> 54 -> (len l <=? spec_max_addrs) = true ->
  forallb opt_fine (opt_addrs code l) = true.
Proof.
  intros H0 H1 H2 H3 Hl. destruct l as [|x l]; [reflexivity|]. unfold opt_addrs, opt_fine, wf_opt, wf_opt_bytes, no_reply_codes. cbn [forallb fst snd].
  rewrite wf_flat_put32, len_flat_put32. unfold spec_max_addrs in Hl. rewrite !andb_true_iff. repeat split; lia.
Qed.

Lemma fine_bytes code b : code <> 0 -> code < 255 -> code <> 53 -> code <> 54 -> fits_bytes b = true -> wf_bytes b = true ->
  forallb opt_fine (opt_bytes code b) = true.
Proof.
  intros H0 H1 H2 H3 Hl Hw. destruct b as [|x b]; [reflexivity|]. unfold opt_bytes, opt_fine, wf_opt, wf_opt_bytes, no_reply_codes. cbn [forallb fst snd].
  rewrite Hw. unfold fits_bytes, spec_max_opt_len in Hl. rewrite !andb_true_iff. repeat split; lia.
Qed.

Lemma length_opt_addr code a : (length (opt_addr code a) <= 1)%nat. Proof. destruct a; cbn; lia. Qed.
Lemma length_opt_addrs code l : (length (opt_addrs code l) <= 1)%nat. Proof. destruct l; cbn; lia. Qed.
Lemma length_opt_bytes code b : (length (opt_bytes code b) <= 1)%nat. Proof. destruct b; cbn; lia. Qed.

Lemma last_opt_app k a b : last_opt k (a ++ b) = match last_opt k b with Some y => Some y | None => last_opt k a end.
Proof.
  induction a as [|[c x] a IH]; cbn [app last_opt]; [destruct (last_opt k b); reflexivity|].
  rewrite IH. destruct (last_opt k b); [reflexivity|]. reflexivity.
Qed.

Lemma last_opt_addr k code a : code <> k -> last_opt k (opt_addr code a) = None.
Proof. intros H. destruct a; cbn; [|reflexivity]. replace (code =? k) with false by lia. reflexivity. Qed.
Lemma last_opt_addrs k code l : code <> k -> last_opt k (opt_addrs code l) = None.
Proof. intros H. destruct l; cbn; [reflexivity|]. replace (code =? k) with false by lia. reflexivity. Qed.
Lemma last_opt_bytes k code b : code <> k -> last_opt k (opt_bytes code b) = None.
Proof. intros H. destruct b; cbn; [reflexivity|]. replace (code =? k) with false by lia. reflexivity. Qed.

Lemma to_u32_put32 v : v < 4294967296 -> to_u32 (put32 v) = v.
Proof. intros H. unfold put32, to_u32. apply LayerProofs.put32_be32. exact H. Qed.

(* strings of the configuration are byte strings *)
Definition config_bytes_ok (c : config) : Prop :=
  wf_bytes (g_domain c) = true /\ Forall (fun k => wf_bytes (k_hostname k) = true) (g_clients c).

Theorem config_option_premises c own own_mac mac ns : valid_config c own own_mac -> config_bytes_ok c -> g_lease c = Dur ns ->
  let os := expected_options c mac in
  opts_ok os = true /\ o_lease (decode_options os) = Z.to_N (ns / 1000000000) /\
  (Z.of_N (o_lease (decode_options os)) * 1000000000 <= ns)%Z /\ o_mask (decode_options os) <> None.
Proof.
  intros Hv [Hwd Hwh] Hl os.
  destruct (v_global_fits _ _ _ Hv) as (G1 & G2 & G3).
  pose proof (v_lease_fits _ _ _ Hv ns Hl) as Hfit. pose proof (v_lease_min _ _ _ Hv ns Hl) as Hmin.
  unfold spec_max_lease_secs, spec_min_lease_ns, second_ns in *.
  assert (Hk : forall k, find_client mac (g_clients c) = Some k ->
            fits_addrs (k_dns k) = true /\ fits_addrs (k_ntp k) = true /\ fits_bytes (k_hostname k) = true /\ wf_bytes (k_hostname k) = true).
  { intros k E. apply find_client_some in E as [Hin _]. pose proof (v_client_fits _ _ _ Hv) as F. rewrite Forall_forall in F, Hwh.
    destruct (F k Hin) as (A & B & C). repeat split; auto. }
  set (e := find_client mac (g_clients c)) in *.
  assert (Hdns : (len (expected_dns c e) <=? spec_max_addrs) = true).
  { unfold expected_dns, e. destruct (find_client mac (g_clients c)) as [k|] eqn:E; [|exact G1].
    destruct (Hk k eq_refl) as (K1 & _). unfold nonempty_or. destruct (list_vals (k_dns k)) eqn:Ed; [exact G1|rewrite <- Ed; exact K1]. }
  assert (Hntp : (len (expected_ntp c e) <=? spec_max_addrs) = true).
  { unfold expected_ntp, e. destruct (find_client mac (g_clients c)) as [k|] eqn:E; [|exact G2].
    destruct (Hk k eq_refl) as (_ & K2 & _). unfold nonempty_or. destruct (list_vals (k_ntp k)) eqn:Ed; [exact G2|rewrite <- Ed; exact K2]. }
  assert (Hhost : fits_bytes (expected_hostname e) = true /\ wf_bytes (expected_hostname e) = true).
  { unfold expected_hostname, e. destruct (find_client mac (g_clients c)) as [k|] eqn:E; [|split; reflexivity].
    destruct (Hk k eq_refl) as (_ & _ & K3 & K4). split; assumption. }
  assert (Hsecs : Z.to_N (lease_seconds c) < 4294967296).
  { unfold lease_seconds. rewrite Hl. unfold second_ns. lia. }
  unfold os, expected_options. fold e.
  unfold gf_dhcpmsg_OptIPAddressLeaseDuration, gf_dhcpmsg_OptSubnetMask, gf_dhcpmsg_OptRouter, gf_dhcpmsg_OptDNS, gf_dhcpmsg_OptNTP,
    gf_dhcpmsg_OptDomainName, gf_dhcpmsg_OptHostname.
  set (hd := [(51, put32 (Z.to_N (lease_seconds c))); (1, put32 (netmask c))]).
  set (tl := opt_addr 3 (expected_router c e) ++ opt_addrs 6 (expected_dns c e) ++ opt_addrs 42 (expected_ntp c e) ++
             opt_bytes 15 (g_domain c) ++ opt_bytes 12 (expected_hostname e)).
  assert (Hfine : forallb opt_fine (hd ++ tl) = true).
  { unfold tl. rewrite !forallb_app. rewrite fine_addr, fine_addrs, fine_addrs, fine_bytes, fine_bytes; try lia; auto; try tauto.
    unfold hd, opt_fine, wf_opt, wf_opt_bytes, no_reply_codes. cbn [forallb fst snd]. rewrite !wf_put32. unfold put32, len. cbn. reflexivity. }
  assert (Hlen : (length (hd ++ tl) <= 7)%nat).
  { unfold tl. rewrite !app_length. pose proof (length_opt_addr 3 (expected_router c e)). pose proof (length_opt_addrs 6 (expected_dns c e)).
    pose proof (length_opt_addrs 42 (expected_ntp c e)). pose proof (length_opt_bytes 15 (g_domain c)). pose proof (length_opt_bytes 12 (expected_hostname e)).
    unfold hd. cbn [length]. lia. }
  assert (Hl51 : last_opt 51 (hd ++ tl) = Some (put32 (Z.to_N (lease_seconds c)))).
  { rewrite last_opt_app. unfold tl. rewrite !last_opt_app, last_opt_addr, !last_opt_addrs, !last_opt_bytes by lia. reflexivity. }
  assert (Hl1 : last_opt 1 (hd ++ tl) = Some (put32 (netmask c))).
  { rewrite last_opt_app. unfold tl. rewrite !last_opt_app, last_opt_addr, !last_opt_addrs, !last_opt_bytes by lia. reflexivity. }
  change ([(51, put32 (Z.to_N (lease_seconds c))); (1, put32 (netmask c))] ++ tl) with (hd ++ tl).
  split; [apply opts_ok_of; assumption|].
  rewrite decode_options_typed. unfold typed_view. cbn [o_lease o_mask]. rewrite Hl51, Hl1, (to_u32_put32 _ Hsecs).
  unfold lease_seconds. rewrite Hl. unfold second_ns.
  split; [reflexivity|]. split; [|unfold put32, to_mask; discriminate].
  rewrite Z2N.id by lia. pose proof (Z.mul_div_le ns 1000000000). lia.
Qed.

(* ... hence of what the accepted server sends (C07: effective_options = expected_options) *)
Theorem server_option_premises c own own_mac s mac ns : new_server c own own_mac = Ok s -> config_bytes_ok c -> g_lease c = Dur ns ->
  let os := effective_options s mac in
  opts_ok os = true /\ o_lease (decode_options os) = Z.to_N (reserved_ns s / 1000000000) /\
  (Z.of_N (o_lease (decode_options os)) * 1000000000 <= reserved_ns s)%Z /\ o_mask (decode_options os) <> None.
Proof.
  intros H Hb Hl. destruct (advertised_is_floor c own own_mac s mac H) as (ns' & b0 & b1 & b2 & b3 & rest & Hl' & Hr & _).
  assert (Hns : ns' = ns) by congruence. rewrite Hns in Hr. rewrite Hr, (new_server_options _ _ _ _ mac H).
  apply (config_option_premises c own own_mac mac ns (new_server_sound _ _ _ _ H) Hb Hl).
Qed.

(* ---------- from the configuration language to the server model: every accepted configuration meets the configuration
   premises of the wire-level theorems ---------- *)
From PSA Require Import proofs.ConstFacts proofs.ClientsProofs proofs.TableProofs proofs.WireInv proofs.WireLease proofs.WireSnap.

(* the configuration of the handler model (model/Server.v) that an accepted configuration gives rise to *)
Definition scfg_of (c : config) (self : N) (own_mac : bytes) (ns : Z) (db : ipdb) : scfg :=
  {| c_self_ip := self; c_self_mac := own_mac; c_lease := ns; c_db := db;
     c_statics := statics (g_clients c);
     c_opts := map (fun m => (m, expected_options c m)) (client_macs (g_clients c));
     c_default_opts := [(gf_dhcpmsg_OptIPAddressLeaseDuration, put32 (Z.to_N (lease_seconds c))); (gf_dhcpmsg_OptSubnetMask, put32 (netmask c))]
                       ++ opt_addr gf_dhcpmsg_OptRouter (expected_router c None) ++ opt_addrs gf_dhcpmsg_OptDNS (expected_dns c None)
                       ++ opt_addrs gf_dhcpmsg_OptNTP (expected_ntp c None) ++ opt_bytes gf_dhcpmsg_OptDomainName (g_domain c)
                       ++ opt_bytes gf_dhcpmsg_OptHostname (expected_hostname None) |}.

Lemma find_client_none mac l : ~ In mac (client_macs l) -> find_client mac l = None.
Proof.
  induction l as [|k l IH]; intros Hn; [reflexivity|]. unfold find_client. cbn [find]. fold (find_client mac l).
  unfold client_macs in Hn. cbn [flat_map] in Hn. fold (client_macs l) in Hn.
  destruct (k_key k) as [|m] eqn:Ek.
  - apply IH. exact Hn.
  - cbn [app] in Hn. destruct (bytes_eqb m mac) eqn:Eb.
    + exfalso. apply Hn. left. apply bytes_eqb_eq. exact Eb.
    + apply IH. intros H. apply Hn. right. exact H.
Qed.

Lemma assoc_map_key {A} (f : bytes -> A) mac l : assoc mac (map (fun m => (m, f m)) l) = if existsb (bytes_eqb mac) l then Some (f mac) else None.
Proof.
  induction l as [|m l IH]; [reflexivity|]. cbn [map assoc existsb]. destruct (bytes_eqb mac m) eqn:E.
  - apply bytes_eqb_eq in E. subst m. reflexivity.
  - exact IH.
Qed.

Lemma opts_for_scfg_of c self own_mac ns db mac : opts_for (scfg_of c self own_mac ns db) mac = expected_options c mac.
Proof.
  unfold opts_for, scfg_of. cbn [c_opts c_default_opts]. rewrite assoc_map_key.
  destruct (existsb (bytes_eqb mac) (client_macs (g_clients c))) eqn:E; [reflexivity|].
  unfold expected_options. rewrite find_client_none; [reflexivity|].
  intros Hin. apply not_true_iff_false in E. apply E. apply existsb_exists. exists mac. split; [exact Hin|apply beqb_refl].
Qed.

Lemma nodup_statics_macs l : NoDup (client_macs l) -> NoDup (map fst (statics l)) /\ (forall m, In m (map fst (statics l)) -> In m (client_macs l)).
Proof.
  induction l as [|k l IH]; intros Hn; [split; [constructor|intros m []]|].
  unfold client_macs in Hn. cbn [flat_map] in Hn. fold (client_macs l) in Hn.
  unfold statics, client_macs. cbn [flat_map]. fold (statics l). fold (client_macs l). unfold static_of.
  destruct (k_key k) as [|m] eqn:Ek.
  - cbn [app]. destruct (IH Hn) as [A B]. split; [exact A|exact B].
  - cbn [app] in Hn. apply NoDup_cons_iff in Hn as [Hn1 Hn2]. destruct (IH Hn2) as [A B].
    destruct (k_ip k); cbn [app map fst]; try (split; [exact A|intros m0 H; right; apply B; exact H]).
    split.
    + constructor; [intros H; apply Hn1; apply B; exact H|exact A].
    + intros m0 [->|H]; [left; reflexivity|right; apply B; exact H].
Qed.

Theorem accepted_config_premises c own own_mac s : new_server c own own_mac = Ok s -> config_bytes_ok c ->
  (forall ip mask, g_network c = Net4 ip mask -> ip < 4294967296 /\ mask < 4294967296) -> s_self s < 4294967296 ->
  let sc := scfg_of c (s_self s) own_mac (reserved_ns s) (s_db s) in
  cfg_wire_ok sc /\ cfg_srv_ok sc /\ cfg_lease_ok sc /\ cfg_c07_ok sc /\ durations_ok sc /\ initial_table sc = s_table s.
Proof.
  intros H Hb Hnet Hself sc.
  pose proof (new_server_sound _ _ _ _ H) as Hv.
  destruct (new_server_state _ _ _ _ H) as (self & Hown & Hs & Hrng & Htab & Hres).
  destruct (v_lease_parsed _ _ _ Hv) as (ns & Hl). rewrite Hl in Hres.
  destruct (v_network _ _ _ Hv) as (ip & mask & En). destruct (Hnet ip mask En) as [Hip Hmask].
  (* ranges *)
  unfold expected_ranges, net_range in Hrng. rewrite En in Hrng. destruct (from_to ip mask) as [f t] eqn:Eft.
  assert (Hft : f < 4294967296 /\ t < 4294967296).
  { unfold from_to in Eft. assert (Hland : N.land ip mask < 4294967296).
    { destruct (N.eq_dec (N.land ip mask) 0) as [E0|E0]; [rewrite E0; lia|].
      change 4294967296 with (2 ^ 32). apply N.log2_lt_pow2; [lia|]. eapply N.le_lt_trans; [apply N.log2_land|]. apply N.min_lt_iff. left.
      destruct (N.eq_dec ip 0) as [Ei|Ei]; [subst; cbn; lia|]. apply N.log2_lt_pow2; [lia|]. exact Hip. }
    destruct (N.land ip mask =? u32 (N.land ip mask + (4294967295 - mask))); injection Eft as <- <-; unfold u32; split; try lia;
      apply N.mod_lt; lia. }
  assert (Hnf : net_from (s_db s) = f /\ net_to (s_db s) = t).
  { unfold ranges_of in Hrng. destruct (g_static_only c); [injection Hrng as -> -> _ _; auto|].
    destruct (g_range c) as [| | |[a|] [b|]]; injection Hrng as -> -> _ _; auto. }
  destruct Hnf as [Hnf Hnt].
  assert (Hinnet : forall n, in_network c n = true -> net_from (s_db s) <= n <= net_to (s_db s)).
  { intros n Hn. unfold in_network, net_range in Hn. rewrite En, Eft in Hn. unfold in_range in Hn. cbn [fst snd] in Hn. lia. }
  (* option lists *)
  assert (Hopt : forall mac, opts_ok (opts_for sc mac) = true /\ o_lease (decode_options (opts_for sc mac)) = Z.to_N (reserved_ns s / 1000000000) /\
                 (Z.of_N (o_lease (decode_options (opts_for sc mac))) * 1000000000 <= reserved_ns s)%Z /\ o_mask (decode_options (opts_for sc mac)) <> None).
  { intros mac. unfold sc. rewrite opts_for_scfg_of, Hres. apply (config_option_premises c own own_mac mac ns Hv Hb Hl). }
  assert (Hcs : cfg_srv_ok sc).
  { destruct (nodup_statics_macs _ (v_distinct_macs _ _ _ Hv)) as [Hndm Hsub].
    constructor; unfold perm_pairs, sc, scfg_of; cbn [c_statics c_self_mac c_self_ip c_db].
    - rewrite map_app. cbn [map fst]. apply NoDup_snoc_iff. split; [exact Hndm|]. exact (v_own_mac_free _ _ _ Hv).
    - rewrite map_app. cbn [map snd]. rewrite Hs. apply (v_distinct_ips _ _ _ Hv self Hown).
    - intros mac n Hin. apply in_app_or in Hin as [Hin|[Heq|[]]].
      + apply Hinnet. eapply v_statics_in_net; eauto.
      + injection Heq as _ <-. destruct (v_own _ _ _ Hv) as (self' & Hs' & Hin'). rewrite Hs. assert (self' = self) by congruence. subst self'. apply Hinnet. exact Hin'.
    - intros Hdd. unfold ranges_of in Hrng. unfold dynamic_disabled in Hdd. pose proof (v_range _ _ _ Hv) as Hro. unfold range_ok in Hro.
      destruct (g_static_only c).
      + injection Hrng as _ _ E1 E2. rewrite E1, E2 in Hdd. discriminate.
      + destruct (g_range c) as [| | |[a|] [b|]]; try discriminate; injection Hrng as _ _ E1 E2; rewrite E1, E2, Hnf, Hnt.
        * lia.
        * rewrite !andb_true_iff in Hro. destruct Hro as ((Ha & Hb') & _). pose proof (Hinnet a Ha). pose proof (Hinnet b Hb'). rewrite Hnf, Hnt in *. lia. }
  split; [|split; [exact Hcs|split; [|split; [|split]]]].
  - (* cfg_wire_ok *)
    unfold cfg_wire_ok, sc, scfg_of. cbn [c_self_ip c_db c_default_opts c_opts]. split; [exact Hself|]. split; [rewrite Hnt; tauto|].
    split.
    + (* the default list is what a configuration without client entries prescribes for any hardware address *)
      pose (c0 := with_clients c []).
      assert (Hv0 : valid_config c0 own own_mac).
      { constructor.
        - exact (v_network _ _ _ Hv).
        - exact (v_lease_parsed _ _ _ Hv).
        - exact (v_lease_min _ _ _ Hv).
        - exact (v_lease_fits _ _ _ Hv).
        - exact (v_global_addrs _ _ _ Hv).
        - exact (v_global_fits _ _ _ Hv).
        - exact (v_range _ _ _ Hv).
        - exact (v_own _ _ _ Hv).
        - constructor.
        - constructor.
        - constructor.
        - intros m n [].
        - constructor.
        - intros self0 Hs0. cbn. constructor; [intros []|constructor].
        - intros []. }
      assert (Hb0 : config_bytes_ok c0) by (destruct Hb; split; [assumption|constructor]).
      destruct (config_option_premises c0 own own_mac [] ns Hv0 Hb0 Hl) as [Ho0 _]. exact Ho0.
    + apply Forall_forall. intros [m os] Hin. cbn [snd]. apply in_map_iff in Hin as (m' & Heq & _). injection Heq as <- <-.
      destruct (Hopt m') as [Ho _]. unfold sc in Ho. rewrite opts_for_scfg_of in Ho. exact Ho.
  - intros mac. destruct (Hopt mac) as (_ & _ & A & _). exact A.
  - intros mac. destruct (Hopt mac) as (_ & A & _ & B). split; assumption.
  - unfold durations_ok, sc, scfg_of. cbn [c_lease]. rewrite Hres. pose proof (v_lease_min _ _ _ Hv ns Hl) as Hmin. unfold spec_min_lease_ns in Hmin.
    unfold hold_ns, req_hold_ns, gf_offer_hold_ns, gf_request_hold_ns. lia.
  - (* the table the handler model starts from is the table New builds *)
    rewrite Htab. unfold expected_bindings. rewrite <- Hs. rewrite (initial_table_eq sc Hcs). reflexivity.
Qed.

(* From the configuration file's content to the wire: for every configuration the model of server.New accepts, every sequential
   history (with a listing after each round) that the acceptor accepts for the handler configuration it gives rise to satisfies
   every server monitor. *)
Theorem accepted_config_to_the_wire c own own_mac s h : new_server c own own_mac = Ok s -> config_bytes_ok c ->
  (forall ip mask, g_network c = Net4 ip mask -> ip < 4294967296 /\ mask < 4294967296) -> s_self s < 4294967296 ->
  let sc := scfg_of c (s_self s) own_mac (reserved_ns s) (s_db s) in
  Forall wf_round h -> snap_times 0%Z h -> accepted sc h ->
  Monitors.mon_C01 sc h = true /\ Monitors.mon_C02 sc h = true /\ Monitors.mon_C03 sc h = true /\ Monitors.mon_C04 sc h = true /\ Monitors.mon_C05 sc h = true /\
  Monitors.mon_C06 sc h = true /\ Monitors.mon_C07 sc h = true /\ Monitors.mon_C08 sc h = true /\ Monitors.mon_C10 sc h = true.
Proof.
  intros H Hb Hnet Hself sc Hw Hs Ha.
  destruct (accepted_config_premises c own own_mac s H Hb Hnet Hself) as (A & B & C & D & E & _). fold sc in A, B, C, D, E.
  pose proof (snap_times_seq h _ Hs) as Hseq.
  split; [apply accepted_history_c01; assumption|]. split; [apply accepted_history_c02; assumption|].
  split; [apply accepted_history_c03; assumption|]. split; [apply accepted_history_c04; assumption|].
  split; [apply accepted_history_c05; assumption|]. split; [apply accepted_history_c06; assumption|].
  split; [apply accepted_history_c07; assumption|]. split; [apply accepted_history_c08; assumption|].
  apply accepted_history_c10; assumption.
Qed.
