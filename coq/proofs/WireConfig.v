(* The option-list premises of the wire-level theorems hold of every configuration the model of server.New accepts:
   what dhcpOptions builds (C07: effective_options = expected_options) fits an option area, does not carry the two options the
   reply constructors add, advertises the whole seconds of the lease the database reserves, and carries a netmask. *)
From PSA Require Import gen.GoFacts model.Bytes model.Dhcp model.Clients model.Ipdb spec.SpecTable model.Server model.Config spec.SpecConfig
  proofs.ChecksumProofs proofs.LayerProofs proofs.DhcpProofs proofs.ServerProofs proofs.ConfigProofs proofs.WireProofs.
From Coq Require Import ZifyN ZifyNat ZifyBool.
Open Scope N_scope.

Definition opt_fine (o : dhcp_opt) : bool := wf_opt o && wf_opt_bytes o && no_reply_codes o.

Lemma opts_ok_of os : forallb opt_fine os = true -> (length os <= 7)%nat -> opts_ok os = true.
Proof.
  intros Hf Hl. unfold opts_ok.
  assert (H3 : forallb wf_opt os = true /\ forallb wf_opt_bytes os = true /\ forallb no_reply_codes os = true /\
               len (flat_map enc_opt os) <= 257 * N.of_nat (length os)).
  { clear Hl. induction os as [|o os IH]; [cbn; repeat split; lia|]. cbn [forallb] in Hf. apply andb_true_iff in Hf as [Ho Hr].
    destruct (IH Hr) as (A & B & C & D). unfold opt_fine in Ho. rewrite !andb_true_iff in Ho. destruct Ho as ((O1 & O2) & O3).
    cbn [forallb flat_map]. rewrite O1, O2, O3, A, B, C. repeat split; auto.
    rewrite len_app. unfold enc_opt at 1. unfold wf_opt in O1. rewrite !andb_true_iff in O1. destruct O1 as ((_ & _) & O1l).
    unfold len in *. cbn [length]. lia. }
  destruct H3 as (A & B & C & D). rewrite A, B, C. cbn [andb]. apply N.leb_le. lia.
Qed.

Lemma wf_flat_put32 l : wf_bytes (flat_map put32 l) = true.
Proof. induction l as [|x l IH]; [reflexivity|]. cbn [flat_map]. apply wf_bytes_app. split; [apply wf_put32|exact IH]. Qed.

Lemma fine_addr code a : code <> 0 -> code < 255 -> code <> 53 -> code <> 54 -> forallb opt_fine (opt_addr code a) = true.
Proof.
  intros H0 H1 H2 H3. destruct a as [x|]; [|reflexivity]. unfold opt_addr, opt_fine, wf_opt, wf_opt_bytes, no_reply_codes. cbn [forallb fst snd].
  rewrite wf_put32. unfold put32, len. cbn [length]. rewrite !andb_true_iff. repeat split; lia.
Qed.

Lemma fine_addrs code l : code <> 0 -> code < 255 -> code <> 53 -> code <> 54 -> (len l <=? spec_max_addrs) = true ->
  forallb opt_fine (opt_addrs code l) = true.
Proof.
  intros H0 H1 H2 H3 Hl. destruct l as [|x l]; [reflexivity|]. unfold opt_addrs, opt_fine, wf_opt, wf_opt_bytes, no_reply_codes. cbn [forallb fst snd].
  rewrite wf_flat_put32, len_flat_put32. unfold spec_max_addrs in Hl. rewrite !andb_true_iff. repeat split; lia.
Qed.

Lemma fine_bytes code b : code <> 0 -> code < 255 -> code <> 53 -> code <> 54 -> fits_bytes b = true -> wf_bytes b = true ->
  forallb opt_fine (opt_bytes code b) = true.
Proof.
  intros H0 H1 H2 H3 Hl Hw. destruct b as [|x b]; [reflexivity|]. unfold opt_bytes, opt_fine, wf_opt, wf_opt_bytes, no_reply_codes. cbn [forallb fst snd].
  rewrite Hw. unfold fits_bytes, spec_max_opt_len in Hl. rewrite !andb_true_iff. repeat split; lia.
Qed.

Lemma length_opt_addr code a : (length (opt_addr code a) <= 1)%nat. Proof. destruct a; cbn; lia. Qed.
Lemma length_opt_addrs code l : (length (opt_addrs code l) <= 1)%nat. Proof. destruct l; cbn; lia. Qed.
Lemma length_opt_bytes code b : (length (opt_bytes code b) <= 1)%nat. Proof. destruct b; cbn; lia. Qed.

Lemma last_opt_app k a b : last_opt k (a ++ b) = match last_opt k b with Some y => Some y | None => last_opt k a end.
Proof.
  induction a as [|[c x] a IH]; cbn [app last_opt]; [destruct (last_opt k b); reflexivity|].
  rewrite IH. destruct (last_opt k b); [reflexivity|]. reflexivity.
Qed.

Lemma last_opt_addr k code a : code <> k -> last_opt k (opt_addr code a) = None.
Proof. intros H. destruct a; cbn; [|reflexivity]. replace (code =? k) with false by lia. reflexivity. Qed.
Lemma last_opt_addrs k code l : code <> k -> last_opt k (opt_addrs code l) = None.
Proof. intros H. destruct l; cbn; [reflexivity|]. replace (code =? k) with false by lia. reflexivity. Qed.
Lemma last_opt_bytes k code b : code <> k -> last_opt k (opt_bytes code b) = None.
Proof. intros H. destruct b; cbn; [reflexivity|]. replace (code =? k) with false by lia. reflexivity. Qed.

Lemma to_u32_put32 v : v < 4294967296 -> to_u32 (put32 v) = v.
Proof. intros H. unfold put32, to_u32. apply LayerProofs.put32_be32. exact H. Qed.

(* strings of the configuration are byte strings *)
Definition config_bytes_ok (c : config) : Prop :=
  wf_bytes (g_domain c) = true /\ Forall (fun k => wf_bytes (k_hostname k) = true) (g_clients c).

Theorem config_option_premises c own own_mac mac ns : valid_config c own own_mac -> config_bytes_ok c -> g_lease c = Dur ns ->
  let os := expected_options c mac in
  opts_ok os = true /\ o_lease (decode_options os) = Z.to_N (ns / 1000000000) /\
  (Z.of_N (o_lease (decode_options os)) * 1000000000 <= ns)%Z /\ o_mask (decode_options os) <> None.
Proof.
  intros Hv [Hwd Hwh] Hl os.
  destruct (v_global_fits _ _ _ Hv) as (G1 & G2 & G3).
  pose proof (v_lease_fits _ _ _ Hv ns Hl) as Hfit. pose proof (v_lease_min _ _ _ Hv ns Hl) as Hmin.
  unfold spec_max_lease_secs, spec_min_lease_ns, second_ns in *.
  assert (Hk : forall k, find_client mac (g_clients c) = Some k ->
            fits_addrs (k_dns k) = true /\ fits_addrs (k_ntp k) = true /\ fits_bytes (k_hostname k) = true /\ wf_bytes (k_hostname k) = true).
  { intros k E. apply find_client_some in E as [Hin _]. pose proof (v_client_fits _ _ _ Hv) as F. rewrite Forall_forall in F, Hwh.
    destruct (F k Hin) as (A & B & C). repeat split; auto. }
  set (e := find_client mac (g_clients c)) in *.
  assert (Hdns : (len (expected_dns c e) <=? spec_max_addrs) = true).
  { unfold expected_dns, e. destruct (find_client mac (g_clients c)) as [k|] eqn:E; [|exact G1].
    destruct (Hk k eq_refl) as (K1 & _). unfold nonempty_or. destruct (list_vals (k_dns k)) eqn:Ed; [exact G1|rewrite <- Ed; exact K1]. }
  assert (Hntp : (len (expected_ntp c e) <=? spec_max_addrs) = true).
  { unfold expected_ntp, e. destruct (find_client mac (g_clients c)) as [k|] eqn:E; [|exact G2].
    destruct (Hk k eq_refl) as (_ & K2 & _). unfold nonempty_or. destruct (list_vals (k_ntp k)) eqn:Ed; [exact G2|rewrite <- Ed; exact K2]. }
  assert (Hhost : fits_bytes (expected_hostname e) = true /\ wf_bytes (expected_hostname e) = true).
  { unfold expected_hostname, e. destruct (find_client mac (g_clients c)) as [k|] eqn:E; [|split; reflexivity].
    destruct (Hk k eq_refl) as (_ & _ & K3 & K4). split; assumption. }
  assert (Hsecs : Z.to_N (lease_seconds c) < 4294967296).
  { unfold lease_seconds. rewrite Hl. unfold second_ns. lia. }
  unfold os, expected_options. fold e.
  unfold gf_dhcpmsg_OptIPAddressLeaseDuration, gf_dhcpmsg_OptSubnetMask, gf_dhcpmsg_OptRouter, gf_dhcpmsg_OptDNS, gf_dhcpmsg_OptNTP,
    gf_dhcpmsg_OptDomainName, gf_dhcpmsg_OptHostname.
  set (hd := [(51, put32 (Z.to_N (lease_seconds c))); (1, put32 (netmask c))]).
  set (tl := opt_addr 3 (expected_router c e) ++ opt_addrs 6 (expected_dns c e) ++ opt_addrs 42 (expected_ntp c e) ++
             opt_bytes 15 (g_domain c) ++ opt_bytes 12 (expected_hostname e)).
  assert (Hfine : forallb opt_fine (hd ++ tl) = true).
  { unfold tl. rewrite !forallb_app. rewrite fine_addr, fine_addrs, fine_addrs, fine_bytes, fine_bytes; try lia; auto; try tauto.
    unfold hd, opt_fine, wf_opt, wf_opt_bytes, no_reply_codes. cbn [forallb fst snd]. rewrite !wf_put32. unfold put32, len. cbn. reflexivity. }
  assert (Hlen : (length (hd ++ tl) <= 7)%nat).
  { unfold tl. rewrite !app_length. pose proof (length_opt_addr 3 (expected_router c e)). pose proof (length_opt_addrs 6 (expected_dns c e)).
    pose proof (length_opt_addrs 42 (expected_ntp c e)). pose proof (length_opt_bytes 15 (g_domain c)). pose proof (length_opt_bytes 12 (expected_hostname e)).
    unfold hd. cbn [length]. lia. }
  assert (Hl51 : last_opt 51 (hd ++ tl) = Some (put32 (Z.to_N (lease_seconds c)))).
  { rewrite last_opt_app. unfold tl. rewrite !last_opt_app, last_opt_addr, !last_opt_addrs, !last_opt_bytes by lia. reflexivity. }
  assert (Hl1 : last_opt 1 (hd ++ tl) = Some (put32 (netmask c))).
  { rewrite last_opt_app. unfold tl. rewrite !last_opt_app, last_opt_addr, !last_opt_addrs, !last_opt_bytes by lia. reflexivity. }
  change ([(51, put32 (Z.to_N (lease_seconds c))); (1, put32 (netmask c))] ++ tl) with (hd ++ tl).
  split; [apply opts_ok_of; assumption|].
  rewrite decode_options_typed. unfold typed_view. cbn [o_lease o_mask]. rewrite Hl51, Hl1, (to_u32_put32 _ Hsecs).
  unfold lease_seconds. rewrite Hl. unfold second_ns.
  split; [reflexivity|]. split; [|unfold put32, to_mask; discriminate].
  rewrite Z2N.id by lia. pose proof (Z.mul_div_le ns 1000000000). lia.
Qed.

(* ... hence of what the accepted server sends (C07: effective_options = expected_options) *)
Theorem server_option_premises c own own_mac s mac ns : new_server c own own_mac = Ok s -> config_bytes_ok c -> g_lease c = Dur ns ->
  let os := effective_options s mac in
  opts_ok os = true /\ o_lease (decode_options os) = Z.to_N (reserved_ns s / 1000000000) /\
  (Z.of_N (o_lease (decode_options os)) * 1000000000 <= reserved_ns s)%Z /\ o_mask (decode_options os) <> None.
Proof.
  intros H Hb Hl. destruct (advertised_is_floor c own own_mac s mac H) as (ns' & b0 & b1 & b2 & b3 & rest & Hl' & Hr & _).
  assert (Hns : ns' = ns) by congruence. rewrite Hns in Hr. rewrite Hr, (new_server_options _ _ _ _ mac H).
  apply (config_option_premises c own own_mac mac ns (new_server_sound _ _ _ _ H) Hb Hl).
Qed.
