From PSA Require Import gen.GoFacts model.Bytes model.Dhcp spec.SpecCodec proofs.ChecksumProofs proofs.LayerProofs.
From Coq Require Import ZifyN ZifyNat ZifyBool.
Ltac Zify.zify_post_hook ::= Z.div_mod_to_equations.
Open Scope N_scope.

(* ---------- the option walk is exactly the grammar ---------- *)

Lemma parse_opts_sound : forall fuel b os, parse_opts fuel b = Some os -> opt_area b os.
Proof.
  induction fuel as [|f IH]; intros b os H; [discriminate|].
  cbn [parse_opts] in H. destruct b as [|c r]; [discriminate|].
  unfold opt_pad, opt_end, gf_dhcpmsg_OptPadding, gf_dhcpmsg_OptEnd in H.
  destruct (c =? 0) eqn:E0.
  - apply N.eqb_eq in E0. subst c. apply oa_pad. apply IH. exact H.
  - destruct (c =? 255) eqn:E1.
    + apply N.eqb_eq in E1. subst c. injection H as <-. apply oa_end.
    + destruct r as [|l r']; [discriminate|].
      destruct (len r' <? l) eqn:El; [discriminate|].
      destruct (parse_opts f (skipn (N.to_nat l) r')) as [os'|] eqn:Er; [|discriminate].
      injection H as <-.
      assert (Hl : len (firstn (N.to_nat l) r') = l).
      { unfold len in *. rewrite firstn_length. lia. }
      rewrite <- (firstn_skipn (N.to_nat l) r') at 1. rewrite <- Hl at 1.
      apply oa_tlv; [lia|lia|]. apply IH. exact Er.
Qed.

Lemma parse_opts_complete : forall b os, opt_area b os -> forall fuel, (length b <= fuel)%nat -> parse_opts fuel b = Some os.
Proof.
  induction 1 as [r | r os H IH | c d r os Hc0 Hc1 H IH]; intros fuel Hf.
  - destruct fuel; [cbn in Hf; lia|]. reflexivity.
  - destruct fuel; [cbn in Hf; lia|]. cbn [parse_opts]. unfold opt_pad, gf_dhcpmsg_OptPadding. cbn [N.eqb].
    apply IH. cbn [length] in Hf. lia.
  - destruct fuel; [cbn in Hf; lia|]. cbn [parse_opts].
    unfold opt_pad, opt_end, gf_dhcpmsg_OptPadding, gf_dhcpmsg_OptEnd.
    replace (c =? 0) with false by lia. replace (c =? 255) with false by lia.
    replace (len (d ++ r) <? len d) with false by (rewrite len_app; lia).
    unfold len. rewrite Nat2N.id. rewrite skipn_app_exact by reflexivity. rewrite firstn_app_exact by reflexivity.
    rewrite IH; [reflexivity|]. cbn [length] in Hf. rewrite app_length in Hf. lia.
Qed.

Theorem parse_opts_iff b os : parse_opts (length b) b = Some os <-> opt_area b os.
Proof. split; [apply parse_opts_sound | intros H; apply parse_opts_complete; [exact H|lia]]. Qed.

Lemma opt_area_functional b os1 os2 : opt_area b os1 -> opt_area b os2 -> os1 = os2.
Proof.
  intros H1 H2. apply parse_opts_iff in H1. apply parse_opts_iff in H2. congruence.
Qed.

(* ---------- decode: no panic, and what an accepted message is ---------- *)

Lemma get16_ok b i : i + 1 < len b -> get16 b i = Ok (be16 (nth (N.to_nat i) b 0) (nth (N.to_nat (i + 1)) b 0)).
Proof. intros H. unfold get16. rewrite !idx_ok by lia. reflexivity. Qed.

Lemma get32_ok b i : i + 3 < len b ->
  get32 b i = Ok (be32 (nth (N.to_nat i) b 0) (nth (N.to_nat (i + 1)) b 0) (nth (N.to_nat (i + 2)) b 0) (nth (N.to_nat (i + 3)) b 0)).
Proof. intros H. unfold get32. rewrite !idx_ok by lia. reflexivity. Qed.

Lemma slice_ok b i j : i <= j -> j <= len b -> slice b i j = Ok (firstn (N.to_nat (j - i)) (skipn (N.to_nat i) b)).
Proof. intros. unfold slice. replace ((i <=? j) && (j <=? len b)) with true by lia. reflexivity. Qed.

Lemma slice_from_ok b i : i <= len b -> slice_from b i = Ok (skipn (N.to_nat i) b).
Proof. intros. unfold slice_from. replace (i <=? len b) with true by lia. reflexivity. Qed.

Definition decoded_as (b : bytes) (m : dhcp_msg) : Prop :=
  let f := bootp_fixed_of b in
  d_op m = f_op f /\ d_htype m = f_htype f /\ d_hops m = f_hops f /\ d_xid m = f_xid f /\ d_secs m = f_secs f /\
  d_flags m = f_flags f /\ d_ciaddr m = f_ciaddr f /\ d_yiaddr m = f_yiaddr f /\ d_siaddr m = f_siaddr f /\
  d_giaddr m = f_giaddr f /\ d_cookie m = f_cookie f /\ d_sname m = f_sname f /\ d_file m = f_file f /\
  f_hlen f <= 16 /\ d_chaddr m = firstn (N.to_nat (f_hlen f)) (f_chaddr16 f) /\
  opt_area (skipn 240 b) (d_options m).

Lemma dhcp_decode_cases b :
  (len b < 240 /\ dhcp_decode b = Err) \/
  (240 <= len b /\ 16 < nth 2 b 0 /\ dhcp_decode b = Err) \/
  (240 <= len b /\ nth 2 b 0 <= 16 /\ parse_opts (length (skipn 240 b)) (skipn 240 b) = None /\ dhcp_decode b = Err) \/
  (240 <= len b /\ nth 2 b 0 <= 16 /\ exists m, dhcp_decode b = Ok m /\ decoded_as b m).
Proof.
  unfold dhcp_decode, dhcp_min_len, gf_dhcpmsg_dhcpMinLen, max_hlen.
  destruct (len b <? 240) eqn:E1; [left; split; [lia|reflexivity]|]. right.
  rewrite (idx_ok b 2) by lia. cbn [bind]. change (N.to_nat 2) with 2%nat.
  destruct (16 <? nth 2 b 0) eqn:E2; [left; repeat split; lia|]. right.
  rewrite !idx_ok by lia. cbn [bind].
  rewrite !get32_ok, !get16_ok by lia. cbn [bind].
  rewrite !slice_ok by lia. cbn [bind]. rewrite slice_from_ok by lia. cbn [bind].
  change (N.to_nat 240) with 240%nat.
  destruct (parse_opts (length (skipn 240 b)) (skipn 240 b)) as [os|] eqn:Ep.
  - right. repeat split; try lia. eexists. split; [reflexivity|].
    unfold decoded_as, bootp_fixed_of, w32, w16, sub, nth0. cbn [d_op d_htype d_hops d_xid d_secs d_flags d_ciaddr d_yiaddr
      d_siaddr d_giaddr d_cookie d_sname d_file d_chaddr d_options f_op f_htype f_hlen f_hops f_xid f_secs f_flags f_ciaddr f_yiaddr
      f_siaddr f_giaddr f_chaddr16 f_sname f_file f_cookie].
    repeat split; try reflexivity; try lia.
    + replace (N.to_nat (28 + nth 2 b 0 - 28)) with (N.to_nat (nth 2 b 0)) by lia.
      change (N.to_nat 28) with 28%nat.
      rewrite firstn_firstn. f_equal. lia.
    + apply parse_opts_iff. exact Ep.
  - left. repeat split; try lia.
Qed.

Theorem dhcp_decode_no_panic b : dhcp_decode b <> Panic.
Proof.
  destruct (dhcp_decode_cases b) as [(_ & H)|[(_ & _ & H)|[(_ & _ & _ & H)|(_ & _ & m & H & _)]]]; rewrite H; discriminate.
Qed.

(* decode = the independent parser: accepted iff long enough, hlen <= 16 and the option area is in the grammar;
   and then the fields are those at the RFC offsets *)
Theorem dhcp_decode_spec b m : dhcp_decode b = Ok m <-> (240 <= len b /\ decoded_as b m).
Proof.
  split.
  - intros H. destruct (dhcp_decode_cases b) as [(_ & H')|[(_ & _ & H')|[(_ & _ & _ & H')|(Hl & _ & m' & H' & Hd)]]]; rewrite H' in H; try discriminate.
    injection H as <-. split; assumption.
  - intros (Hl & Hd). destruct (dhcp_decode_cases b) as [(Hs & _)|[(_ & Hh & _)|[(_ & _ & Hp & _)|(_ & _ & m' & H' & Hd')]]].
    + lia.
    + unfold decoded_as in Hd. cbn in Hd. unfold nth0 in Hd. lia.
    + exfalso. destruct Hd as (_&_&_&_&_&_&_&_&_&_&_&_&_&_&_&Ho). apply parse_opts_iff in Ho. congruence.
    + rewrite H'. f_equal.
      destruct Hd as (A1&A2&A3&A4&A5&A6&A7&A8&A9&A10&A11&A12&A13&A14&A15&A16).
      destruct Hd' as (B1&B2&B3&B4&B5&B6&B7&B8&B9&B10&B11&B12&B13&B14&B15&B16).
      pose proof (opt_area_functional _ _ _ A16 B16) as Ho.
      destruct m, m'. cbn in *. subst. reflexivity.
Qed.

(* ---------- decode (assemble m) = m ---------- *)

Definition wf_opt (o : dhcp_opt) : bool := negb (fst o =? 0) && (fst o <? 255) && (len (snd o) <=? 255).

Definition wf_msg (m : dhcp_msg) : bool :=
  (d_op m <? 256) && (d_htype m <? 256) && (d_hops m <? 256) && (d_xid m <? 4294967296) && (d_secs m <? 65536) &&
  (d_flags m <? 65536) && (d_ciaddr m <? 4294967296) && (d_yiaddr m <? 4294967296) && (d_siaddr m <? 4294967296) &&
  (d_giaddr m <? 4294967296) && (d_cookie m <? 4294967296) && (len (d_chaddr m) <=? 16) &&
  (len (d_sname m) =? 64) && (len (d_file m) =? 128) && match d_options m with [] => false | _ => true end && forallb wf_opt (d_options m).

Lemma length_pad_to n b : length (pad_to n b) = n.
Proof. unfold pad_to. rewrite firstn_length, app_length. unfold zeros. rewrite repeat_length. lia. Qed.

Lemma pad_to_exact n b : length b = n -> pad_to n b = b.
Proof. intros <-. unfold pad_to. rewrite firstn_app, Nat.sub_diag, firstn_all. cbn. apply app_nil_r. Qed.

Lemma firstn_pad_to n b : (length b <= n)%nat -> firstn (length b) (pad_to n b) = b.
Proof.
  intros H. unfold pad_to. rewrite firstn_firstn. replace (Nat.min (length b) n) with (length b) by lia.
  rewrite firstn_app, Nat.sub_diag, firstn_all. cbn. apply app_nil_r.
Qed.

Lemma nth_at {A} (P S : list A) x d off : length P = off -> nth off (P ++ x :: S) d = x.
Proof. intros <-. rewrite app_nth2 by lia. rewrite Nat.sub_diag. reflexivity. Qed.

Lemma w32_at P S v off : length P = off -> v < 4294967296 -> w32 (P ++ put32 v ++ S) off = v.
Proof.
  intros Hl Hv. unfold w32, nth0, put32. cbn [app].
  rewrite (nth_at P _ _ _ off Hl).
  replace (P ++ v / 16777216 mod 256 :: v / 65536 mod 256 :: v / 256 mod 256 :: v mod 256 :: S)
    with ((P ++ [v / 16777216 mod 256]) ++ v / 65536 mod 256 :: v / 256 mod 256 :: v mod 256 :: S) at 1 by (rewrite <- app_assoc; reflexivity).
  rewrite (nth_at _ _ _ _ (off + 1)) by (rewrite app_length; cbn; lia).
  replace (P ++ v / 16777216 mod 256 :: v / 65536 mod 256 :: v / 256 mod 256 :: v mod 256 :: S)
    with ((P ++ [v / 16777216 mod 256; v / 65536 mod 256]) ++ v / 256 mod 256 :: v mod 256 :: S) at 1 by (rewrite <- app_assoc; reflexivity).
  rewrite (nth_at _ _ _ _ (off + 2)) by (rewrite app_length; cbn; lia).
  replace (P ++ v / 16777216 mod 256 :: v / 65536 mod 256 :: v / 256 mod 256 :: v mod 256 :: S)
    with ((P ++ [v / 16777216 mod 256; v / 65536 mod 256; v / 256 mod 256]) ++ v mod 256 :: S) by (rewrite <- app_assoc; reflexivity).
  rewrite (nth_at _ _ _ _ (off + 3)) by (rewrite app_length; cbn; lia).
  apply put32_be32. exact Hv.
Qed.

Lemma w16_at P S v off : length P = off -> v < 65536 -> w16 (P ++ put16 v ++ S) off = v.
Proof.
  intros Hl Hv. unfold w16, nth0, put16. cbn [app].
  rewrite (nth_at P _ _ _ off Hl).
  replace (P ++ v / 256 mod 256 :: v mod 256 :: S) with ((P ++ [v / 256 mod 256]) ++ v mod 256 :: S) by (rewrite <- app_assoc; reflexivity).
  rewrite (nth_at _ _ _ _ (off + 1)) by (rewrite app_length; cbn; lia).
  apply put16_be16. exact Hv.
Qed.

Lemma sub_at (P X S : bytes) off n : length P = off -> length X = n -> sub (P ++ X ++ S) off n = X.
Proof. intros Hp Hx. unfold sub. rewrite skipn_app_exact by assumption. apply firstn_app_exact. assumption. Qed.

Lemma opt_area_enc os : forallb wf_opt os = true -> opt_area (flat_map enc_opt os ++ [255]) os.
Proof.
  induction os as [|[c d] os IH]; intros H.
  - apply oa_end.
  - cbn [forallb] in H. apply andb_true_iff in H as [Ho Hr].
    unfold wf_opt in Ho. cbn [fst snd] in Ho.
    cbn [flat_map enc_opt fst snd app]. rewrite <- app_assoc.
    replace (u8 (len d)) with (len d) by (unfold u8; lia).
    apply oa_tlv; [lia|lia|]. apply IH. exact Hr.
Qed.

Theorem dhcp_decode_assemble m : wf_msg m = true -> dhcp_decode (dhcp_assemble m) = Ok m.
Proof.
  intros Hwf. unfold wf_msg in Hwf. rewrite !andb_true_iff in Hwf.
  destruct Hwf as (((((((((((((((H1 & H2) & H3) & H4) & H5) & H6) & H7) & H8) & H9) & H10) & H11) & H12) & H13) & H14) & H15) & H16).
  apply dhcp_decode_spec.
  set (x0 := [d_op m; d_htype m; u8 (len (d_chaddr m)); d_hops m]).
  set (tail := flat_map enc_opt (d_options m) ++ (match d_options m with [] => [] | _ => [opt_end] end)).
  assert (Htail : tail = flat_map enc_opt (d_options m) ++ [255]).
  { unfold tail. destruct (d_options m); [discriminate H15|reflexivity]. }
  assert (Hb : dhcp_assemble m = x0 ++ put32 (d_xid m) ++ put16 (d_secs m) ++ put16 (d_flags m) ++ put32 (d_ciaddr m) ++
               put32 (d_yiaddr m) ++ put32 (d_siaddr m) ++ put32 (d_giaddr m) ++ pad_to 16 (d_chaddr m) ++ pad_to 64 (d_sname m) ++
               pad_to 128 (d_file m) ++ put32 (d_cookie m) ++ tail).
  { unfold dhcp_assemble, x0, tail. rewrite <- ?app_assoc. reflexivity. }
  pose proof (length_pad_to 16 (d_chaddr m)) as L16.
  pose proof (length_pad_to 64 (d_sname m)) as L64.
  pose proof (length_pad_to 128 (d_file m)) as L128.
  assert (Hlen : len (dhcp_assemble m) = 240 + len tail).
  { rewrite Hb. rewrite !len_app. unfold len at 1 2 3 4 5 6 7 8 9 10 11 12. rewrite L16, L64, L128. cbn [length x0 put32 put16]. lia. }
  split; [lia|].
  unfold decoded_as, bootp_fixed_of.
  cbn [f_op f_htype f_hlen f_hops f_xid f_secs f_flags f_ciaddr f_yiaddr f_siaddr f_giaddr f_chaddr16 f_sname f_file f_cookie].
  assert (N0 : nth0 (dhcp_assemble m) 0 = d_op m) by (rewrite Hb; reflexivity).
  assert (N1 : nth0 (dhcp_assemble m) 1 = d_htype m) by (rewrite Hb; reflexivity).
  assert (N2 : nth0 (dhcp_assemble m) 2 = len (d_chaddr m)) by (rewrite Hb; unfold nth0, x0; cbn [app nth]; unfold u8; lia).
  assert (N3 : nth0 (dhcp_assemble m) 3 = d_hops m) by (rewrite Hb; reflexivity).
  rewrite N0, N1, N2, N3.
  Ltac reshape Hb k :=
    rewrite Hb; repeat rewrite app_assoc; do k rewrite <- app_assoc.
  assert (F4 : w32 (dhcp_assemble m) 4 = d_xid m).
  { rewrite Hb. apply w32_at; [reflexivity|lia]. }
  assert (F8 : w16 (dhcp_assemble m) 8 = d_secs m).
  { rewrite Hb. rewrite (app_assoc x0). apply w16_at; [reflexivity|lia]. }
  assert (F10 : w16 (dhcp_assemble m) 10 = d_flags m).
  { rewrite Hb. rewrite (app_assoc x0), (app_assoc (x0 ++ _)). apply w16_at; [reflexivity|lia]. }
  assert (F12 : w32 (dhcp_assemble m) 12 = d_ciaddr m).
  { rewrite Hb. rewrite (app_assoc x0), (app_assoc (x0 ++ _)), (app_assoc ((x0 ++ _) ++ _)). apply w32_at; [reflexivity|lia]. }
  assert (F16 : w32 (dhcp_assemble m) 16 = d_yiaddr m).
  { rewrite Hb. rewrite (app_assoc x0), (app_assoc (x0 ++ _)), (app_assoc ((x0 ++ _) ++ _)), (app_assoc (((x0 ++ _) ++ _) ++ _)).
    apply w32_at; [reflexivity|lia]. }
  assert (F20 : w32 (dhcp_assemble m) 20 = d_siaddr m).
  { rewrite Hb. rewrite (app_assoc x0), (app_assoc (x0 ++ _)), (app_assoc ((x0 ++ _) ++ _)), (app_assoc (((x0 ++ _) ++ _) ++ _)),
      (app_assoc ((((x0 ++ _) ++ _) ++ _) ++ _)). apply w32_at; [reflexivity|lia]. }
  assert (F24 : w32 (dhcp_assemble m) 24 = d_giaddr m).
  { rewrite Hb. rewrite (app_assoc x0), (app_assoc (x0 ++ _)), (app_assoc ((x0 ++ _) ++ _)), (app_assoc (((x0 ++ _) ++ _) ++ _)),
      (app_assoc ((((x0 ++ _) ++ _) ++ _) ++ _)), (app_assoc (((((x0 ++ _) ++ _) ++ _) ++ _) ++ _)). apply w32_at; [reflexivity|lia]. }
  set (P28 := x0 ++ put32 (d_xid m) ++ put16 (d_secs m) ++ put16 (d_flags m) ++ put32 (d_ciaddr m) ++
               put32 (d_yiaddr m) ++ put32 (d_siaddr m) ++ put32 (d_giaddr m)).
  assert (Hb2 : dhcp_assemble m = P28 ++ pad_to 16 (d_chaddr m) ++ pad_to 64 (d_sname m) ++ pad_to 128 (d_file m) ++ put32 (d_cookie m) ++ tail).
  { rewrite Hb. unfold P28. rewrite <- ?app_assoc. reflexivity. }
  assert (LP28 : length P28 = 28%nat) by reflexivity.
  assert (S28 : sub (dhcp_assemble m) 28 16 = pad_to 16 (d_chaddr m)).
  { rewrite Hb2. apply sub_at; assumption. }
  assert (S44 : sub (dhcp_assemble m) 44 64 = pad_to 64 (d_sname m)).
  { rewrite Hb2. rewrite (app_assoc P28). apply sub_at; [rewrite app_length, LP28, L16; reflexivity|assumption]. }
  assert (S108 : sub (dhcp_assemble m) 108 128 = pad_to 128 (d_file m)).
  { rewrite Hb2. rewrite (app_assoc P28), (app_assoc (P28 ++ _)). apply sub_at; [rewrite !app_length, LP28, L16, L64; reflexivity|assumption]. }
  assert (F236 : w32 (dhcp_assemble m) 236 = d_cookie m).
  { rewrite Hb2. rewrite (app_assoc P28), (app_assoc (P28 ++ _)), (app_assoc ((P28 ++ _) ++ _)).
    apply w32_at; [rewrite !app_length, LP28, L16, L64, L128; reflexivity|lia]. }
  assert (K240 : skipn 240 (dhcp_assemble m) = tail).
  { rewrite Hb2. rewrite (app_assoc P28), (app_assoc (P28 ++ _)), (app_assoc ((P28 ++ _) ++ _)), (app_assoc (((P28 ++ _) ++ _) ++ _)).
    apply skipn_app_exact. rewrite !app_length, LP28, L16, L64, L128. reflexivity. }
  rewrite F4, F8, F10, F12, F16, F20, F24, S28, S44, S108, F236, K240.
  repeat split; try reflexivity; try lia.
  - symmetry. apply pad_to_exact. unfold len in H13. lia.
  - symmetry. apply pad_to_exact. unfold len in H14. lia.
  - unfold len. rewrite Nat2N.id. symmetry. apply firstn_pad_to. unfold len in H12. lia.
  - rewrite Htail. apply opt_area_enc. exact H16.
Qed.

(* ---------- typed accessors ---------- *)

Lemma to_u8_exact x : to_u8 x <> 0 -> exists a, x = [a] /\ to_u8 x = a.
Proof. destruct x as [|a [|? ?]]; cbn; intros H; try congruence. eauto. Qed.
Lemma to_u16_exact x : to_u16 x <> 0 -> exists a b, x = [a; b] /\ to_u16 x = be16 a b.
Proof. destruct x as [|a [|b [|? ?]]]; cbn; intros H; try congruence. eauto. Qed.
Lemma to_u32_exact x : to_u32 x <> 0 -> exists a b c d, x = [a; b; c; d] /\ to_u32 x = be32 a b c d.
Proof. destruct x as [|a [|b [|c [|d [|? ?]]]]]; cbn; intros H; try congruence. eauto 6. Qed.
Lemma to_mask_exact x m : to_mask x = Some m -> length x = 4%nat /\ m = x.
Proof. destruct x as [|a [|b [|c [|d [|? ?]]]]]; cbn; intros H; try discriminate. injection H as <-. auto. Qed.

Lemma v4s_length x l : v4s x = Some l -> length x = (4 * length l)%nat.
Proof.
  revert l. induction x as [x IH] using (well_founded_induction (Wf_nat.well_founded_ltof _ (@length N))).
  intros l. destruct x as [|a [|b [|c [|d r]]]]; cbn [v4s]; intros H; try discriminate.
  - injection H as <-. reflexivity.
  - destruct (v4s r) as [l'|] eqn:E; [|discriminate]. injection H as <-.
    cbn [length]. rewrite (IH r) with (l := l'); [lia| unfold ltof; cbn; lia | exact E].
Qed.

Lemma to_v4a_exact x : to_v4a x <> [] -> length x = (4 * length (to_v4a x))%nat /\ (4 <= length x)%nat.
Proof.
  unfold to_v4a. destruct (v4s x) as [l|] eqn:E; [|congruence]. intros H.
  pose proof (v4s_length x l E). destruct l; [congruence|]. cbn [length] in *. lia.
Qed.

Lemma to_v4_exact x a : to_v4 x = Some a -> exists b0 b1 b2 b3, x = [b0; b1; b2; b3] /\ a = be32 b0 b1 b2 b3.
Proof.
  unfold to_v4, to_v4a. destruct (v4s x) as [l|] eqn:E; [|discriminate].
  destruct l as [|a' [|? ?]]; try discriminate. intros H. injection H as <-.
  pose proof (v4s_length x _ E) as Hl. cbn in Hl.
  destruct x as [|b0 [|b1 [|b2 [|b3 [|? ?]]]]]; try discriminate Hl.
  cbn in E. injection E as <-. eauto 6.
Qed.

Fixpoint last_opt (k : N) (os : list dhcp_opt) : option bytes :=
  match os with
  | [] => None
  | (c, x) :: r => match last_opt k r with Some y => Some y | None => if c =? k then Some x else None end
  end.

Lemma fold_proj {A} (proj : decoded_options -> A) (k : N) (conv : bytes -> A) :
  (forall d c x, proj (set_opt d (c, x)) = if c =? k then conv x else proj d) ->
  forall os d, proj (fold_left set_opt os d) = match last_opt k os with Some x => conv x | None => proj d end.
Proof.
  intros Hp. induction os as [|[c x] os IH]; intros d; [reflexivity|].
  cbn [fold_left last_opt]. rewrite IH. destruct (last_opt k os); [reflexivity|]. rewrite Hp. destruct (c =? k); reflexivity.
Qed.

Ltac set_opt_field :=
  intros d c x; unfold set_opt,
    gf_dhcpmsg_OptSubnetMask, gf_dhcpmsg_OptRouter, gf_dhcpmsg_OptDNS, gf_dhcpmsg_OptDomainName, gf_dhcpmsg_OptBroadcastAddress,
    gf_dhcpmsg_OptRequestedIP, gf_dhcpmsg_OptIPAddressLeaseDuration, gf_dhcpmsg_OptMessageType, gf_dhcpmsg_OptMaxMessageSize,
    gf_dhcpmsg_OptInterfaceMTU, gf_dhcpmsg_OptServerIdentifier, gf_dhcpmsg_OptMessage, gf_dhcpmsg_OptRenewalDuration,
    gf_dhcpmsg_OptRebindDuration, gf_dhcpmsg_OptClientIdentifier, gf_dhcpmsg_OptParametersList;
  repeat match goal with |- context [if ?a =? ?b then _ else _] => destruct (a =? b) eqn:?; cbn; try reflexivity; try lia end.

Lemma sf_msgtype : forall d c x, o_msgtype (set_opt d (c, x)) = if c =? 53 then to_u8 x else o_msgtype d. Proof. set_opt_field. Qed.
Lemma sf_maxsize : forall d c x, o_maxsize (set_opt d (c, x)) = if c =? 57 then to_u16 x else o_maxsize d. Proof. set_opt_field. Qed.
Lemma sf_mtu : forall d c x, o_mtu (set_opt d (c, x)) = if c =? 26 then to_u16 x else o_mtu d. Proof. set_opt_field. Qed.
Lemma sf_lease : forall d c x, o_lease (set_opt d (c, x)) = if c =? 51 then to_u32 x else o_lease d. Proof. set_opt_field. Qed.
Lemma sf_renew : forall d c x, o_renew (set_opt d (c, x)) = if c =? 58 then to_u32 x else o_renew d. Proof. set_opt_field. Qed.
Lemma sf_rebind : forall d c x, o_rebind (set_opt d (c, x)) = if c =? 59 then to_u32 x else o_rebind d. Proof. set_opt_field. Qed.
Lemma sf_reqip : forall d c x, o_reqip (set_opt d (c, x)) = if c =? 50 then to_v4 x else o_reqip d. Proof. set_opt_field. Qed.
Lemma sf_sid : forall d c x, o_sid (set_opt d (c, x)) = if c =? 54 then to_v4 x else o_sid d. Proof. set_opt_field. Qed.
Lemma sf_bcast : forall d c x, o_bcast (set_opt d (c, x)) = if c =? 28 then to_v4 x else o_bcast d. Proof. set_opt_field. Qed.
Lemma sf_mask : forall d c x, o_mask (set_opt d (c, x)) = if c =? 1 then to_mask x else o_mask d. Proof. set_opt_field. Qed.
Lemma sf_routers : forall d c x, o_routers (set_opt d (c, x)) = if c =? 3 then to_v4a x else o_routers d. Proof. set_opt_field. Qed.
Lemma sf_dns : forall d c x, o_dns (set_opt d (c, x)) = if c =? 6 then to_v4a x else o_dns d. Proof. set_opt_field. Qed.
Lemma sf_domain : forall d c x, o_domain (set_opt d (c, x)) = if c =? 15 then x else o_domain d. Proof. set_opt_field. Qed.
Lemma sf_cid : forall d c x, o_cid (set_opt d (c, x)) = if c =? 61 then x else o_cid d. Proof. set_opt_field. Qed.
Lemma sf_message : forall d c x, o_message (set_opt d (c, x)) = if c =? 56 then x else o_message d. Proof. set_opt_field. Qed.
Lemma sf_params : forall d c x, o_params (set_opt d (c, x)) = if c =? 55 then x else o_params d. Proof. set_opt_field. Qed.

Definition typed_view (os : list dhcp_opt) : decoded_options :=
  let g {A} (k : N) (conv : bytes -> A) (dflt : A) := match last_opt k os with Some x => conv x | None => dflt end in
  {| o_msgtype := g 53 to_u8 0; o_maxsize := g 57 to_u16 0; o_mtu := g 26 to_u16 0;
     o_reqip := g 50 to_v4 None; o_sid := g 54 to_v4 None; o_bcast := g 28 to_v4 None; o_mask := g 1 to_mask None;
     o_routers := g 3 to_v4a []; o_dns := g 6 to_v4a []; o_lease := g 51 to_u32 0; o_renew := g 58 to_u32 0; o_rebind := g 59 to_u32 0;
     o_domain := g 15 (fun x => x) []; o_cid := g 61 (fun x => x) []; o_message := g 56 (fun x => x) []; o_params := g 55 (fun x => x) [] |}.

(* every typed field is the conversion of the last option of its code, and nothing else *)
Theorem decode_options_typed os : decode_options os = typed_view os.
Proof.
  unfold decode_options, typed_view.
  pose proof (fold_proj o_msgtype 53 to_u8 sf_msgtype os empty_opts) as E1.
  pose proof (fold_proj o_maxsize 57 to_u16 sf_maxsize os empty_opts) as E2.
  pose proof (fold_proj o_mtu 26 to_u16 sf_mtu os empty_opts) as E3.
  pose proof (fold_proj o_reqip 50 to_v4 sf_reqip os empty_opts) as E4.
  pose proof (fold_proj o_sid 54 to_v4 sf_sid os empty_opts) as E5.
  pose proof (fold_proj o_bcast 28 to_v4 sf_bcast os empty_opts) as E6.
  pose proof (fold_proj o_mask 1 to_mask sf_mask os empty_opts) as E7.
  pose proof (fold_proj o_routers 3 to_v4a sf_routers os empty_opts) as E8.
  pose proof (fold_proj o_dns 6 to_v4a sf_dns os empty_opts) as E9.
  pose proof (fold_proj o_lease 51 to_u32 sf_lease os empty_opts) as E10.
  pose proof (fold_proj o_renew 58 to_u32 sf_renew os empty_opts) as E11.
  pose proof (fold_proj o_rebind 59 to_u32 sf_rebind os empty_opts) as E12.
  pose proof (fold_proj o_domain 15 (fun x => x) sf_domain os empty_opts) as E13.
  pose proof (fold_proj o_cid 61 (fun x => x) sf_cid os empty_opts) as E14.
  pose proof (fold_proj o_message 56 (fun x => x) sf_message os empty_opts) as E15.
  pose proof (fold_proj o_params 55 (fun x => x) sf_params os empty_opts) as E16.
  destruct (fold_left set_opt os empty_opts). cbn in *. subst. reflexivity.
Qed.
