From PSA Require Import gen.GoFacts model.Bytes model.Client.
From Coq Require Import ZifyN ZifyNat ZifyBool.
Open Scope Z_scope.

(* ---------- what is configured ---------- *)

(* the interface is only ever configured in the ifconfig state, with exactly the parameters of the stored reply *)
Theorem setiface_is_last_reply croute s e s' acts t c ok :
  phase_step croute s e = (s', acts) -> In (ASetIface t c ok) acts ->
  c_phase s = PIfconfig /\ c = build_netconf croute (c_last s) /\ t = c_now s.
Proof.
  unfold phase_step, sent. intros H Hin.
  destruct (c_phase s) eqn:Ep; destruct e as [pre o|o|okk ca|ca|]; try destruct o; cbn in H;
    repeat match type of H with context [if ?b then _ else _] => destruct b end;
    try (destruct (deadlines (c_now s) (c_last s)) as [[? ?] ?]);
    injection H as <- <-; cbn in Hin;
    repeat match goal with H : _ \/ _ |- _ => destruct H end; try discriminate; try contradiction;
    match goal with H : ASetIface _ _ _ = ASetIface _ _ _ |- _ => injection H as <- <- <- end; auto.
Qed.

(* the stored reply only changes when an exchange ends with an accepted reply, and then it is that reply *)
Theorem last_changes_only_on_accept croute s e s' acts :
  phase_step croute s e = (s', acts) ->
  c_last s' = c_last s \/ exists pre dt l, e = EExchange pre (XAccept dt l) /\ c_last s' = l.
Proof.
  unfold phase_step. intros H.
  destruct (c_phase s); destruct e as [pre o|o|okk ca|ca|]; try destruct o; cbn in H;
    repeat match type of H with context [if ?b then _ else _] => destruct b end;
    try (destruct (deadlines (c_now s) (c_last s)) as [[? ?] ?]);
    injection H as <- _; cbn; auto; right; eauto.
Qed.

(* what build_netconf yields: address, lease, MTU, DNS and domain of the reply; the router only when default-route
   configuration is enabled; the supplied netmask if it is a canonical 4-byte mask, else the class default *)
Theorem netconf_fields croute l :
  let c := build_netconf croute l in
  nc_ip c = li_yiaddr l /\ nc_mtu c = li_mtu l /\ nc_dns c = li_dns l /\ nc_domain c = li_domain l /\ nc_lease c = li_lease l /\
  (croute = false -> nc_router c = None) /\ (croute = true -> nc_router c = Some (hd 0%N (li_routers l))) /\
  (forall m, li_mask l = Some m -> canonical_mask m = true -> nc_mask c = m) /\
  ((li_mask l = None \/ exists m, li_mask l = Some m /\ canonical_mask m = false) -> nc_mask c = default_mask (li_yiaddr l)).
Proof.
  cbn. repeat split; try (intros ->; reflexivity).
  - intros m -> Hc. rewrite Hc. reflexivity.
  - intros [->|(m & -> & Hc)]; [reflexivity|rewrite Hc; reflexivity].
Qed.

(* ---------- the order of states: configuration only after a clean ARP check of an accepted reply ---------- *)

Theorem ifconfig_only_after_clean_arp croute s e s' acts :
  phase_step croute s e = (s', acts) -> c_phase s' = PIfconfig -> c_phase s <> PIfconfig ->
  c_phase s = PArp /\ exists o, e = EArp o /\ (forall dt, o <> AForeign dt).
Proof.
  unfold phase_step. intros H Hp Hn.
  destruct (c_phase s) eqn:Ep; destruct e as [pre o|o|okk ca|ca|]; try destruct o; cbn in H;
    repeat match type of H with context [if ?b then _ else _] => destruct b end;
    try (destruct (deadlines (c_now s) (c_last s)) as [[? ?] ?]);
    injection H as <- _; cbn in Hp; try discriminate; try congruence;
    (split; [reflexivity|eexists; split; [reflexivity|intros; discriminate]]).
Qed.

Theorem arp_only_after_accept croute s e s' acts :
  phase_step croute s e = (s', acts) -> c_phase s' = PArp -> c_phase s <> PArp ->
  exists pre dt l, e = EExchange pre (XAccept dt l) /\ c_last s' = l /\ (c_phase s = PSelect \/ c_phase s = PRenew \/ c_phase s = PRebind).
Proof.
  unfold phase_step. intros H Hp Hn.
  destruct (c_phase s) eqn:Ep; destruct e as [pre o|o|okk ca|ca|]; try destruct o; cbn in H;
    repeat match type of H with context [if ?b then _ else _] => destruct b end;
    try (destruct (deadlines (c_now s) (c_last s)) as [[? ?] ?]);
    injection H as <- _; cbn in Hp; try discriminate; try congruence; eauto 10.
Qed.

(* an address conflict: the configuration is removed and the client starts over after the back-off *)
Theorem conflict_unconfigures croute s dt s' acts :
  c_phase s = PArp -> phase_step croute s (EArp (AForeign dt)) = (s', acts) ->
  acts = [AUnconfigure (c_now s + dt)] /\ c_phase s' = PPurge /\ c_now s' = c_now s + dt + panic_reset.
Proof. unfold phase_step. intros -> H. injection H as <- <-. auto. Qed.

Theorem purge_restarts croute s e s' acts :
  c_phase s = PPurge -> phase_step croute s e = (s', acts) ->
  acts = [AUnconfigure (c_now s); AUp (c_now s)] /\ c_phase s' = PDiscover.
Proof. unfold phase_step. intros -> H. destruct e; injection H as <- <-; auto. Qed.

(* a failed interface configuration also unconfigures and starts over *)
Theorem setiface_failure_unconfigures croute s ca s' acts :
  c_phase s = PIfconfig -> phase_step croute s (ESetIface false ca) = (s', acts) ->
  acts = [ASetIface (c_now s) (build_netconf croute (c_last s)) false; AUnconfigure (c_now s)] /\ c_phase s' = PPurge.
Proof. unfold phase_step. intros -> H. injection H as <- <-. auto. Qed.

(* ---------- T1 <= T2 <= expiry; server values only if consistent ---------- *)

Theorem use_server_times_iff l :
  use_server_times l = true <-> (Z.of_N gf_min_t1_ns < li_t1 l /\ li_t1 l < li_t2 l /\ li_t2 l < li_lease l).
Proof. unfold use_server_times, min_t1. rewrite !andb_true_iff, !Z.ltb_lt. tauto. Qed.

(* float64 rounding moves a non-negative integer by at most its 2^53-th part *)
Lemma round53_bounds n : 0 <= n -> n - n / 2 ^ 53 <= round53 n <= n + n / 2 ^ 53.
Proof.
  intros Hn. unfold round53.
  destruct (Z.log2 n - 52 <=? 0) eqn:Ek.
  - assert (0 <= n / 2 ^ 53) by (apply Z.div_pos; lia). lia.
  - apply Z.leb_gt in Ek. set (k := Z.log2 n - 52) in *.
    assert (Hn0 : 0 < n) by (destruct (Z.eq_dec n 0) as [->|]; [cbn in Ek; lia|lia]).
    destruct (Z.log2_spec n Hn0) as [Hlo _].
    assert (Hk : Z.log2 n = k + 52) by lia. rewrite Hk in Hlo.
    assert (Hp : 0 < 2 ^ k) by (apply Z.pow_pos_nonneg; lia).
    assert (Hh : 2 ^ k = 2 * 2 ^ (k - 1)) by (rewrite <- Z.pow_succ_r by lia; f_equal; lia).
    assert (Hh0 : 0 < 2 ^ (k - 1)) by (apply Z.pow_pos_nonneg; lia).
    assert (Hhalf : 2 ^ k / 2 = 2 ^ (k - 1)) by (rewrite Hh, Z.mul_comm, Z.div_mul; lia).
    (* the half-unit is at most n / 2^53 *)
    assert (Hbig : 2 ^ (k - 1) <= n / 2 ^ 53).
    { apply Z.div_le_lower_bound; [lia|].
      replace (2 ^ (k + 52)) with (2 ^ 53 * 2 ^ (k - 1)) in Hlo; [exact Hlo|].
      rewrite <- Z.pow_add_r by lia. f_equal. lia. }
    pose proof (Z.div_mod n (2 ^ k) ltac:(lia)) as Hdm.
    pose proof (Z.mod_pos_bound n (2 ^ k) Hp) as Hr.
    rewrite Hhalf. set (q := n / 2 ^ k) in *. set (r := n mod 2 ^ k) in *.
    destruct (r <? 2 ^ (k - 1)) eqn:E1; [nia|].
    destruct (2 ^ (k - 1) <? r) eqn:E2; [nia|].
    destruct (Z.even q); nia.
Qed.

Lemma round53_nonneg n : 0 <= n -> 0 <= round53 n.
Proof.
  intros Hn. pose proof (round53_bounds n Hn) as [H _].
  assert (n / 2 ^ 53 <= n) by (apply Z.div_le_upper_bound; [reflexivity|]; change (2 ^ 53) with 9007199254740992; lia). lia.
Qed.

Lemma round53_small n : 0 <= n < 2 ^ 53 -> round53 n = n.
Proof.
  intros [H0 H1]. unfold round53.
  destruct (Z.eq_dec n 0) as [->|Hne]; [reflexivity|].
  assert (Z.log2 n < 53) by (apply Z.log2_lt_pow2; lia).
  replace (Z.log2 n - 52 <=? 0) with true by lia. reflexivity.
Qed.

(* T1 <= T2 <= lease also after the roundings *)
Lemma fallback_ordered lease : 0 <= lease -> 0 <= half lease /\ half lease <= seven_eighths lease /\ seven_eighths lease <= lease.
Proof.
  intros Hl. unfold half, seven_eighths.
  pose proof (round53_bounds lease Hl) as [F1 F2]. pose proof (round53_nonneg lease Hl) as F0.
  set (f := round53 lease) in *.
  pose proof (round53_bounds (f * 7) ltac:(lia)) as [G1 G2].
  set (g := round53 (f * 7)) in *.
  assert (D1 : 0 <= lease / 2 ^ 53 <= lease / 64).
  { split; [apply Z.div_pos; lia|]. apply Z.div_le_compat_l; [lia|]. change (2 ^ 53) with 9007199254740992. lia. }
  assert (D2 : 0 <= f * 7 / 2 ^ 53 <= f * 7 / 64).
  { split; [apply Z.div_pos; lia|]. apply Z.div_le_compat_l; [lia|]. change (2 ^ 53) with 9007199254740992. lia. }
  repeat split.
  - apply Z.div_pos; lia.
  - apply Z.div_le_lower_bound; [lia|]. assert (f / 2 * 2 <= f) by (pose proof (Z.mul_div_le f 2 ltac:(lia)); lia). lia.
  - apply Z.div_le_upper_bound; lia.
Qed.

(* leases up to 2^53 / 7 ns (about 14.9 days) get exactly 50 % and 87.5 % (rounded down to the nanosecond) *)
Lemma fallback_exact lease : 0 <= lease -> lease * 7 < 2 ^ 53 -> half lease = lease / 2 /\ seven_eighths lease = lease * 7 / 8.
Proof.
  intros H0 H1. unfold half, seven_eighths. rewrite (round53_small lease) by lia. rewrite round53_small by lia. split; reflexivity.
Qed.

Theorem deadlines_ordered now l : 0 <= li_lease l ->
  let '(t1, t2, tx) := deadlines now l in now <= t1 /\ t1 <= t2 /\ t2 <= tx /\ tx = now + li_lease l.
Proof.
  intros Hl. unfold deadlines. destruct (use_server_times l) eqn:E.
  - apply use_server_times_iff in E as (E1 & E2 & E3). assert (0 <= Z.of_N gf_min_t1_ns) by (apply N2Z.is_nonneg). lia.
  - destruct (fallback_ordered (li_lease l) Hl) as (A & B & C). repeat split; lia.
Qed.

Theorem deadlines_server_values now l :
  deadlines now l = (now + li_t1 l, now + li_t2 l, now + li_lease l) <->
  (use_server_times l = true \/ (li_t1 l = half (li_lease l) /\ li_t2 l = seven_eighths (li_lease l))).
Proof.
  unfold deadlines. destruct (use_server_times l); split; auto.
  - intros H. right. injection H as H1 H2. lia.
  - intros [H|[H1 H2]]; [discriminate|]. rewrite H1, H2. reflexivity.
Qed.

(* ---------- renewal at T1, rebinding at T2, restart at expiry or NAK ---------- *)

Theorem bound_wakes_at_t1 croute s s' acts : c_phase s = PBound ->
  phase_step croute s (ESleep None) = (s', acts) ->
  let '(t1, t2, tx) := deadlines (c_now s) (c_last s) in
  c_phase s' = PRenew /\ c_now s' = Z.max (c_now s) t1 /\ c_t1 s' = t1 /\ c_t2 s' = t2 /\ c_tx s' = tx /\ acts = [].
Proof.
  unfold phase_step. intros -> H. destruct (deadlines (c_now s) (c_last s)) as [[t1 t2] tx]. injection H as <- <-. cbn. repeat split; reflexivity.
Qed.

Theorem renew_outcomes croute s pre o s' acts : c_phase s = PRenew ->
  phase_step croute s (EExchange pre o) = (s', acts) ->
  match o with
  | XAccept dt l => c_phase s' = PArp /\ c_last s' = l
  | XNak dt => c_phase s' = PPurge /\ c_now s' = c_now s + dt
  | XTimeout => c_phase s' = PRebind /\ c_now s' = Z.max (c_now s) (c_t2 s)
  | XCancel dt => c_phase s' = PRebind
  end /\ (forall t k, In (AExchange t k) acts -> k = 3%N /\ t = c_now s + pre).
Proof.
  unfold phase_step, sent. intros -> H. destruct o; injection H as <- <-; cbn; (split; [auto|]);
    intros t k Hin; match type of Hin with context [if ?b then _ else _] => destruct b end; cbn in Hin;
    try contradiction; destruct Hin as [Hin|[]]; injection Hin as <- <-; auto.
Qed.

Theorem rebind_outcomes croute s pre o s' acts : c_phase s = PRebind ->
  phase_step croute s (EExchange pre o) = (s', acts) ->
  match o with
  | XAccept dt l => c_phase s' = PArp /\ c_last s' = l
  | XNak dt => c_phase s' = PPurge /\ c_now s' = c_now s + dt
  | XTimeout => c_phase s' = PPurge /\ c_now s' = Z.max (c_now s) (c_tx s)
  | XCancel dt => c_phase s' = PPurge
  end.
Proof. unfold phase_step. intros -> H. destruct o; injection H as <- _; cbn; auto. Qed.

(* renewing REQUESTs are only sent before T2 (the exchange ends there); rebinding ones before the expiry *)
Theorem renew_frames_before_t2 croute s pre s' acts t k : c_phase s = PRenew ->
  phase_step croute s (EExchange pre XTimeout) = (s', acts) -> In (AExchange t k) acts -> t < Z.max (c_now s) (c_t2 s).
Proof.
  unfold phase_step, sent. intros -> H Hin. injection H as _ <-.
  destruct (pre <? Z.max (c_now s) (c_t2 s) - c_now s) eqn:E; cbn in Hin; [|contradiction].
  destruct Hin as [Hin|[]]. injection Hin as <- _. lia.
Qed.

(* a link-up while holding a lease: early re-validation by rebinding with all deadlines resume_deadline away *)
Theorem resume_revalidates s : c_phase s = PBound \/ c_phase s = PRenew \/ c_phase s = PRebind ->
  let s' := resume s in
  c_phase s' = PRebind /\ c_t1 s' = c_now s + resume_deadline /\ c_t2 s' = c_now s + resume_deadline /\
  c_tx s' = c_now s + resume_deadline /\ c_last s' = c_last s.
Proof. unfold resume. intros [H|[H|H]]; rewrite H; cbn; repeat split; reflexivity. Qed.

Theorem resume_otherwise_restarts s : c_phase s <> PBound -> c_phase s <> PRenew -> c_phase s <> PRebind -> c_phase (resume s) = PPurge.
Proof. unfold resume. destruct (c_phase s); intros; try congruence; reflexivity. Qed.

(* ---------- C16: retransmission spacing ---------- *)

Theorem next_delay_bounds d r : 0 <= d -> 0 <= r -> d <= next_delay d r <= 2 * d.
Proof.
  intros Hd Hr. unfold next_delay. destruct (d <? retx_barrier); [|lia].
  assert (0 <= r mod (1 + d) < 1 + d) by (apply Z.mod_pos_bound; lia). lia.
Qed.

Theorem delays_spacing rs : forall d, retx_first <= d -> Forall (fun r => 0 <= r) rs ->
  Forall (fun x => retx_first <= x) (delays d rs) /\
  (forall i a b, nth_error (delays d rs) i = Some a -> nth_error (delays d rs) (S i) = Some b -> a <= b) /\
  (forall a, hd_error (delays d rs) = Some a -> d <= a).
Proof.
  assert (Hf : 0 < retx_first) by reflexivity.
  induction rs as [|r rs IH]; intros d Hd Hall; cbn [delays].
  - repeat split; [constructor|intros i a b H; destruct i; discriminate|discriminate].
  - inversion Hall as [|? ? Hr Hrs]; subst.
    pose proof (next_delay_bounds d r ltac:(lia) Hr) as [B1 B2].
    destruct (IH (next_delay d r) ltac:(lia) Hrs) as (F & M & H0).
    repeat split.
    + constructor; [lia|exact F].
    + intros i a b Ha Hb. destruct i as [|i]; cbn in Ha, Hb.
      * injection Ha as <-. apply H0. destruct (delays (next_delay d r) rs); cbn in *; congruence.
      * eapply M; eauto.
    + cbn. intros a Ha. injection Ha as <-. lia.
Qed.

(* once the spacing has passed the barrier it stays constant *)
Theorem delay_constant_past_barrier d r : retx_barrier <= d -> next_delay d r = d.
Proof. intros H. unfold next_delay. replace (d <? retx_barrier) with false by lia. reflexivity. Qed.

Theorem sent_nothing_after_end t pre dur kind : dur <= pre -> sent t pre dur kind = [].
Proof. intros H. unfold sent. replace (pre <? dur) with false by lia. reflexivity. Qed.
