(* Facts about the reference table itself (no key index): uniqueness, the success condition of an
   update, permanence, soundness and completeness of the address search. *)
From PSA Require Import model.Bytes model.Clients model.Ipdb spec.SpecTable spec.SpecIpdb proofs.ClientsProofs.
From Coq Require Import ZifyN ZifyNat ZifyBool Permutation.
Open Scope N_scope.

Definition live_at (now : Z) (t : table) (p : nat) (e : entry) : Prop := nth_error t p = Some e /\ live now e = true.

Lemma find_live_some_iff now k t p : unique_live now t ->
  (find_live now k t 0 = Some p <-> exists e, live_at now t p e /\ has_key k e = true).
Proof.
  intros U. split.
  - intros H. apply find_live_some in H as (_ & e & Hn & Hl & Hk & _). rewrite Nat.sub_0_r in Hn. exists e. repeat split; auto.
  - intros (e & (Hn & Hl) & Hk). eapply find_live_unique; eauto.
Qed.

Lemma find_live_none_iff now k t :
  find_live now k t 0 = None <-> forall p e, live_at now t p e -> has_key k e = false.
Proof.
  split.
  - intros H p e (Hn & Hl). pose proof (find_live_none _ _ _ _ H p e Hn) as Hf. rewrite Hl in Hf. exact Hf.
  - intros H. destruct (find_live now k t 0) as [p|] eqn:E; [|reflexivity].
    apply find_live_some in E as (_ & e & Hn & Hl & Hk & _). rewrite Nat.sub_0_r in Hn.
    rewrite (H p e (conj Hn Hl)) in Hk. discriminate.
Qed.

Lemma find_live_mono now now' k t : (now <= now')%Z -> find_live now' k t 0 <> None -> find_live now k t 0 <> None.
Proof.
  intros Hle H Hn. apply H. apply find_live_none_iff. intros p e (Hne & Hl).
  rewrite find_live_none_iff in Hn. apply (Hn p e). split; [exact Hne|]. eapply live_mono; eauto.
Qed.

(* ---------- uniqueness is an invariant of the table operations and of time ---------- *)

Lemma unique_live_mono now now' t : (now <= now')%Z -> unique_live now t -> unique_live now' t.
Proof. intros H U k p q e1 e2 H1 H2 L1 L2. apply (U k p q e1 e2 H1 H2); eapply live_mono; eauto. Qed.

Lemma unique_live_nil now : unique_live now [].
Proof. intros k p q e1 e2 H. destruct p; discriminate. Qed.

Lemma t_inject_spec now ip d u perm t ok t' : t_inject now ip d u perm t = (ok, t') ->
  (ok = true /\ find_live now (KIp ip) t 0 = None /\ find_live now (KDuid d) t 0 = None /\
   t' = t ++ [{| e_ip := ip; e_duid := d; e_until := u; e_perm := perm |}]) \/
  (ok = false /\ t' = t /\ (find_live now (KIp ip) t 0 <> None \/ find_live now (KDuid d) t 0 <> None)).
Proof.
  unfold t_inject, t_lookup. destruct (find_live now (KIp ip) t 0) eqn:E1; destruct (find_live now (KDuid d) t 0) eqn:E2;
    intros H; injection H as <- <-; [right|right|right|left]; repeat split; auto; try (left; congruence); try (right; congruence).
Qed.

Lemma t_set_lease_spec now ip d u t ok t' : unique_live now t -> t_set_lease now ip d u t = (ok, t') ->
  (ok = true /\ exists p e, live_at now t p e /\ e_ip e = ip /\ e_duid e = d /\ t' = set_until t p u) \/
  (ok = false /\ t' = t /\ ~ exists p e, live_at now t p e /\ e_ip e = ip /\ e_duid e = d).
Proof.
  intros U. unfold t_set_lease, t_lookup.
  destruct (find_live now (KIp ip) t 0) as [p|] eqn:E1.
  - apply (find_live_some_iff _ _ _ _ U) in E1 as (e1 & L1 & K1). cbn in K1. apply N.eqb_eq in K1.
    destruct (find_live now (KDuid d) t 0) as [q|] eqn:E2.
    + apply (find_live_some_iff _ _ _ _ U) in E2 as (e2 & L2 & K2). cbn in K2. apply bytes_eqb_eq in K2.
      destruct (Nat.eqb p q) eqn:Epq; intros H; injection H as <- <-.
      * apply Nat.eqb_eq in Epq. subst q. left. split; [reflexivity|]. exists p, e1.
        destruct L1 as [N1 ?], L2 as [N2 ?]. assert (e2 = e1) by congruence. subst e2. repeat split; auto.
      * right. repeat split; auto. intros (p0 & e0 & (N0 & L0) & I0 & D0).
        destruct L1 as [N1 L1], L2 as [N2 L2].
        assert (p0 = p) by (apply (U (KIp ip) p0 p e0 e1); auto; cbn; apply N.eqb_eq; auto).
        assert (p0 = q) by (apply (U (KDuid d) p0 q e0 e2); auto; cbn; apply bytes_eqb_eq; auto).
        apply Nat.eqb_neq in Epq. congruence.
    + intros H; injection H as <- <-. right. repeat split; auto. intros (p0 & e0 & L0 & I0 & D0).
      rewrite find_live_none_iff in E2. specialize (E2 p0 e0 L0). cbn in E2.
      assert (bytes_eqb (e_duid e0) d = true) by (apply bytes_eqb_eq; auto). congruence.
  - intros H. assert ((ok, t') = (false, t)) as Hf by (destruct (find_live now (KDuid d) t 0); congruence).
    injection Hf as -> ->. right. repeat split; auto. intros (p0 & e0 & L0 & I0 & D0).
    rewrite find_live_none_iff in E1. specialize (E1 p0 e0 L0). cbn in E1. apply N.eqb_neq in E1. contradiction.
Qed.

Lemma live_set_until_other t p u q e :
  nth_error (set_until t p u) q = Some e -> q <> p -> nth_error t q = Some e.
Proof. rewrite nth_error_set_until. intros H Hne. apply Nat.eqb_neq in Hne. rewrite Hne in H. exact H. Qed.

Lemma unique_live_set_until now t p u : unique_live now t ->
  (forall e, nth_error t p = Some e -> live now e = true) -> unique_live now (set_until t p u).
Proof.
  intros U Hp k a b e1 e2 H1 H2 L1 L2 K1 K2.
  rewrite nth_error_set_until in H1, H2.
  assert (G : forall q e, (if Nat.eqb q p then option_map (fun e0 => {| e_ip := e_ip e0; e_duid := e_duid e0; e_until := u; e_perm := e_perm e0 |}) (nth_error t q) else nth_error t q) = Some e ->
              has_key k e = true -> exists e0, nth_error t q = Some e0 /\ has_key k e0 = true /\ (live now e = true -> live now e0 = true)).
  { intros q e H K. destruct (Nat.eqb q p) eqn:E.
    - apply Nat.eqb_eq in E. subst q. destruct (nth_error t p) as [e0|] eqn:E0; [|discriminate]. cbn in H. injection H as <-.
      exists e0. split; [reflexivity|]. split; [destruct k; exact K|]. intros _. apply Hp. reflexivity.
    - exists e. auto. }
  destruct (G a e1 H1 K1) as (x1 & N1 & Kx1 & Lx1). destruct (G b e2 H2 K2) as (x2 & N2 & Kx2 & Lx2).
  apply (U k a b x1 x2); auto.
Qed.

Lemma unique_live_app now t e : unique_live now t ->
  (live now e = true -> find_live now (KIp (e_ip e)) t 0 = None /\ find_live now (KDuid (e_duid e)) t 0 = None) ->
  unique_live now (t ++ [e]).
Proof.
  intros U Hn k a b e1 e2 H1 H2 L1 L2 K1 K2.
  assert (G : forall q x, nth_error (t ++ [e]) q = Some x -> (nth_error t q = Some x /\ (q < length t)%nat) \/ (q = length t /\ x = e)).
  { intros q x H. destruct (Nat.lt_ge_cases q (length t)) as [Hl|Hg].
    - left. rewrite nth_error_app1 in H by exact Hl. auto.
    - right. rewrite nth_error_app2 in H by exact Hg. destruct (q - length t)%nat as [|r] eqn:E; cbn in H; [|destruct r; discriminate].
      injection H as <-. split; [lia|reflexivity]. }
  assert (Hex : forall q x, nth_error t q = Some x -> live now x = true -> has_key k x = true -> live now e = true -> has_key k e = true -> False).
  { intros q x Hx Lx Kx Le Ke. destruct (Hn Le) as [A B]. rewrite find_live_none_iff in A, B.
    apply has_key_iff in Ke. destruct Ke as [-> | ->]; [rewrite (A q x (conj Hx Lx)) in Kx | rewrite (B q x (conj Hx Lx)) in Kx]; discriminate. }
  destruct (G a e1 H1) as [[N1 Hl1]|[-> ->]]; destruct (G b e2 H2) as [[N2 Hl2]|[-> ->]].
  - apply (U k a b e1 e2); auto.
  - exfalso. eapply Hex; eauto.
  - exfalso. eapply Hex; eauto.
  - reflexivity.
Qed.

Lemma t_set_lease_unique now ip d u t ok t' : unique_live now t -> t_set_lease now ip d u t = (ok, t') -> unique_live now t'.
Proof.
  intros U H. destruct (t_set_lease_spec _ _ _ _ _ _ _ U H) as [(_ & p & e & (Hn & Hl) & _ & _ & ->)|(_ & -> & _)]; [|exact U].
  apply unique_live_set_until; [exact U|]. intros e0 H0. congruence.
Qed.

Lemma t_inject_unique now ip d u perm t ok t' : unique_live now t -> t_inject now ip d u perm t = (ok, t') -> unique_live now t'.
Proof.
  intros U H. destruct (t_inject_spec _ _ _ _ _ _ _ _ H) as [(_ & A & B & ->)|(_ & -> & _)]; [|exact U].
  apply unique_live_app; [exact U|]. cbn. auto.
Qed.

Lemma t_search_time cands : forall i c pr now0 x t r n1, (forall a, (0 <= snd (pr a))%Z) ->
  t_search cands i c pr now0 x t = (r, n1) -> (now0 <= n1)%Z.
Proof.
  induction cands as [|v l IH]; intros i c pr n0 x t r n1 Hp E; cbn [t_search] in E; [injection E as <- <-; lia|].
  destruct (c i); [injection E as <- <-; lia|].
  destruct (find_live n0 (KIp (u32 (dyn_from x + v))) t 0); [eapply IH; eauto|].
  destruct (uip_valid (u32 (dyn_from x + v))); [|eapply IH; eauto].
  destruct (pr (u32 (dyn_from x + v))) as [free dt] eqn:Epr. pose proof (Hp (u32 (dyn_from x + v))) as Hdt. rewrite Epr in Hdt. cbn in Hdt.
  destruct free; [injection E as <- <-; lia|]. apply IH in E; [lia|exact Hp].
Qed.

Lemma t_update_unique x now ip d ttl t ok t' : unique_live now t -> t_update_client x now ip d ttl t = (ok, t') -> unique_live now t'.
Proof.
  intros U E. unfold t_update_client in E. destruct (to_uip x ip) as [n|]; [|injection E as <- <-; exact U].
  destruct (t_set_lease now n d (now + ttl) t) as [ok1 t2] eqn:E1.
  pose proof (t_set_lease_unique _ _ _ _ _ _ _ U E1) as U1.
  destruct ok1; [injection E as <- <-; exact U1|].
  destruct (t_inject now n d (now + ttl) false t2) as [ok2 t3] eqn:E2.
  pose proof (t_inject_unique _ _ _ _ _ _ _ _ U1 E2) as U2.
  destruct ok2; cbn [negb] in E; [|injection E as <- <-; exact U2].
  eapply t_set_lease_unique; eauto.
Qed.

Lemma t_hold_cases x now ip d ttl t :
  t_hold_client x now ip d ttl t = (true, t) \/ t_hold_client x now ip d ttl t = t_update_client x now ip d ttl t.
Proof.
  unfold t_hold_client. destruct (to_uip x ip) as [n|] eqn:E; [|right; unfold t_update_client; rewrite E; reflexivity].
  destruct (t_lookup now n d t) as [[p|] [q|]]; auto.
  destruct (Nat.eqb p q); auto. destruct (nth_error t p) as [e|]; auto.
  destruct (now + ttl <? e_until e)%Z; auto.
Qed.

Lemma t_hold_unique x now ip d ttl t ok t' : unique_live now t -> t_hold_client x now ip d ttl t = (ok, t') -> unique_live now t'.
Proof.
  intros U E. destruct (t_hold_cases x now ip d ttl t) as [H|H]; rewrite H in E.
  - injection E as <- <-. exact U.
  - eapply t_update_unique; eauto.
Qed.

Lemma t_find_time x perm c pr now sg d t r n1 : (forall a, (0 <= snd (pr a))%Z) ->
  t_find_ip x perm c pr now sg d t = (r, n1) -> (now <= n1)%Z.
Proof.
  intros Hp E. unfold t_find_ip in E. destruct (bound_ip now d t); [injection E as <- <-; lia|].
  destruct (dynamic_disabled x); [injection E as <- <-; lia|]. eapply t_search_time; eauto.
Qed.

Lemma t_step_unique x t now op res t' now' : probe_nonneg op -> unique_live now t ->
  t_step x t now op = (res, t', now') -> unique_live now' t' /\ (now <= now')%Z.
Proof.
  intros Hp U H. destruct op as [ip d ttl|d|ip d|perm c pr sg d|ip d ttl|perm c pr sg d ttl]; cbn [t_step] in H.
  - destruct (t_update_client x now ip d ttl t) as [ok t1] eqn:E. injection H as <- <- <-. split; [|lia].
    eapply t_update_unique; eauto.
  - injection H as <- <- <-. split; [exact U|lia].
  - destruct (t_add_permanent x now ip d t) as [ok t1] eqn:E. injection H as <- <- <-. split; [|lia].
    unfold t_add_permanent in E. destruct (to_uip x ip) as [n|]; [|injection E as <- <-; exact U].
    eapply t_inject_unique; eauto.
  - destruct (t_find_ip x perm c pr now sg d t) as [r n1] eqn:E. injection H as <- <- <-.
    pose proof (t_find_time _ _ _ _ _ _ _ _ _ _ Hp E) as Hle.
    split; [eapply unique_live_mono; eauto|exact Hle].
  - destruct (t_hold_client x now ip d ttl t) as [ok t1] eqn:E. injection H as <- <- <-. split; [|lia].
    eapply t_hold_unique; eauto.
  - unfold t_offer_ip in H. destruct (t_find_ip x perm c pr now sg d t) as [r n1] eqn:E.
    pose proof (t_find_time _ _ _ _ _ _ _ _ _ _ Hp E) as Hle.
    assert (U1 : unique_live n1 t) by (eapply unique_live_mono; eauto).
    destruct r as [a|]; [|injection H as <- <- <-; auto].
    destruct (t_hold_client x n1 (Some a) d ttl t) as [ok t2] eqn:Eh. injection H as <- <- <-.
    split; [eapply t_hold_unique; eauto|exact Hle].
Qed.

(* the table (and clock) a history ends in; every reachable state is the end of some history *)
Fixpoint t_final (x : ipdb) (t : table) (now : Z) (h : list (Z * dbop)) : table * Z :=
  match h with
  | [] => (t, now)
  | (dt, op) :: r => let '(_, t', now') := t_step x t (now + dt)%Z op in t_final x t' now' r
  end.

(* every table reachable by a history with a non-decreasing clock has at most one live binding per
   address and per client *)
Theorem t_run_unique h : forall x t now, clock_ok h -> unique_live now t ->
  unique_live (snd (t_final x t now h)) (fst (t_final x t now h)) /\ (now <= snd (t_final x t now h))%Z.
Proof.
  induction h as [|[dt op] h IH]; intros x t now Hc U; cbn [t_final]; [cbn; split; [exact U|lia]|].
  inversion Hc as [|? ? [Hdt Hp] Hc']; subst. cbn [fst snd] in *.
  destruct (t_step x t (now + dt) op) as [[res t'] now'] eqn:E.
  assert (U0 : unique_live (now + dt) t) by (eapply unique_live_mono; [|exact U]; lia).
  destruct (t_step_unique _ _ _ _ _ _ _ Hp U0 E) as [U1 L1].
  destruct (IH x t' now' Hc' U1) as [U2 L2]. split; [exact U2|lia].
Qed.

(* ---------- when does an update succeed, and what does it do ---------- *)

Lemma set_until_same t p e : nth_error t p = Some e -> set_until t p (e_until e) = t.
Proof.
  revert p. induction t as [|a t IH]; intros [|p] H; cbn in *; try discriminate.
  - injection H as ->. destruct e; reflexivity.
  - f_equal. apply IH. exact H.
Qed.

Definition new_entry (n : N) (d : bytes) (u : Z) (perm : bool) : entry := {| e_ip := n; e_duid := d; e_until := u; e_perm := perm |}.

Theorem t_update_spec x now ip d ttl t ok t' :
  unique_live now t -> t_update_client x now ip d ttl t = (ok, t') ->
  match to_uip x ip with
  | None => ok = false /\ t' = t
  | Some n =>
    (* extends the caller's own live binding *)
    (exists p e, live_at now t p e /\ e_ip e = n /\ e_duid e = d /\ ok = true /\ t' = set_until t p (now + ttl)%Z) \/
    (* creates one where neither the address nor the client is bound *)
    (find_live now (KIp n) t 0 = None /\ find_live now (KDuid d) t 0 = None /\
     t' = t ++ [new_entry n d (now + ttl)%Z false] /\ (ok = true <-> (0 <= ttl)%Z)) \/
    (* the address or the client is bound otherwise: refused, nothing changes *)
    ((find_live now (KIp n) t 0 <> None \/ find_live now (KDuid d) t 0 <> None) /\
     (~ exists p e, live_at now t p e /\ e_ip e = n /\ e_duid e = d) /\ ok = false /\ t' = t)
  end.
Proof.
  intros U H. unfold t_update_client in H. destruct (to_uip x ip) as [n|]; [|injection H as <- <-; auto].
  destruct (t_set_lease now n d (now + ttl) t) as [ok1 t1] eqn:E1.
  destruct (t_set_lease_spec _ _ _ _ _ _ _ U E1) as [(-> & p & e & L & I & D & ->)|(-> & -> & Hno)].
  - injection H as <- <-. left. exists p, e. auto.
  - destruct (t_inject now n d (now + ttl) false t) as [ok2 t2] eqn:E2.
    destruct (t_inject_spec _ _ _ _ _ _ _ _ E2) as [(-> & A & B & ->)|(-> & -> & Hb)]; cbn [negb] in H.
    + right. left. fold (new_entry n d (now + ttl)%Z false) in *.
      set (e := new_entry n d (now + ttl)%Z false) in *.
      assert (U2 : unique_live now (t ++ [e])) by (apply unique_live_app; [exact U|cbn; auto]).
      assert (Hn : nth_error (t ++ [e]) (length t) = Some e) by (rewrite nth_error_app2, Nat.sub_diag by lia; reflexivity).
      destruct (t_set_lease_spec _ _ _ _ _ _ _ U2 H) as [(-> & p & e0 & (N0 & L0) & I0 & D0 & ->)|(-> & -> & Hno2)].
      * assert (p = length t).
        { destruct (Nat.lt_ge_cases p (length t)) as [Hl|Hg].
          - exfalso. rewrite nth_error_app1 in N0 by exact Hl. rewrite find_live_none_iff in A.
            specialize (A p e0 (conj N0 L0)). cbn in A. apply N.eqb_neq in A. contradiction.
          - assert (p < length (t ++ [e]))%nat by (apply nth_error_Some; congruence). rewrite app_length in H0. cbn in H0. lia. }
        subst p. assert (e0 = e) by congruence. subst e0.
        repeat split; auto.
        -- change (now + ttl)%Z with (e_until e). apply set_until_same. exact Hn.
        -- intros _. unfold live, expired in L0. cbn in L0. lia.
      * repeat split; auto; try discriminate. intros Httl. exfalso. apply Hno2. exists (length t), e.
        repeat split; auto. unfold live, expired. cbn. lia.
    + injection H as <- <-. right. right. repeat split; auto.
Qed.

(* ---------- bindings keep their address, client and permanence; permanent ones never disappear ---------- *)

Definition stable (t t' : table) : Prop :=
  forall p e, nth_error t p = Some e -> exists e', nth_error t' p = Some e' /\ e_ip e' = e_ip e /\ e_duid e' = e_duid e /\ e_perm e' = e_perm e.

Lemma stable_refl t : stable t t.
Proof. intros p e H. eauto. Qed.
Lemma stable_trans a b c : stable a b -> stable b c -> stable a c.
Proof. intros H1 H2 p e H. destruct (H1 p e H) as (e1 & N1 & A & B & C). destruct (H2 p e1 N1) as (e2 & N2 & A2 & B2 & C2). exists e2. repeat split; congruence. Qed.
Lemma stable_set_until t p u : stable t (set_until t p u).
Proof.
  intros q e H. rewrite nth_error_set_until. destruct (Nat.eqb q p); rewrite H; cbn; eauto.
Qed.
Lemma stable_app t l : stable t (t ++ l).
Proof. intros p e H. exists e. rewrite nth_error_app1; [auto|]. apply nth_error_Some. congruence. Qed.

Lemma t_update_stable x now ip d ttl t ok t' : unique_live now t -> t_update_client x now ip d ttl t = (ok, t') -> stable t t'.
Proof.
  intros U E. pose proof (t_update_spec _ _ _ _ _ _ _ _ U E) as S. destruct (to_uip x ip).
  - destruct S as [(p & e & _ & _ & _ & _ & ->)|[(_ & _ & -> & _)|(_ & _ & _ & ->)]];
      [apply stable_set_until|apply stable_app|apply stable_refl].
  - destruct S as [_ ->]. apply stable_refl.
Qed.

Lemma t_hold_stable x now ip d ttl t ok t' : unique_live now t -> t_hold_client x now ip d ttl t = (ok, t') -> stable t t'.
Proof.
  intros U E. destruct (t_hold_cases x now ip d ttl t) as [H|H]; rewrite H in E.
  - injection E as <- <-. apply stable_refl.
  - eapply t_update_stable; eauto.
Qed.

Lemma t_step_stable x t now op res t' now' : probe_nonneg op -> unique_live now t -> t_step x t now op = (res, t', now') -> stable t t'.
Proof.
  intros Hp U H. destruct op as [ip d ttl|d|ip d|perm c pr sg d|ip d ttl|perm c pr sg d ttl]; cbn [t_step] in H.
  - destruct (t_update_client x now ip d ttl t) as [ok t1] eqn:E. injection H as <- <- <-. eapply t_update_stable; eauto.
  - injection H as <- <- <-. apply stable_refl.
  - destruct (t_add_permanent x now ip d t) as [ok t1] eqn:E. injection H as <- <- <-.
    unfold t_add_permanent in E. destruct (to_uip x ip); [|injection E as <- <-; apply stable_refl].
    destruct (t_inject_spec _ _ _ _ _ _ _ _ E) as [(_ & _ & _ & ->)|(_ & -> & _)]; [apply stable_app|apply stable_refl].
  - destruct (t_find_ip x perm c pr now sg d t). injection H as <- <- <-. apply stable_refl.
  - destruct (t_hold_client x now ip d ttl t) as [ok t1] eqn:E. injection H as <- <- <-. eapply t_hold_stable; eauto.
  - unfold t_offer_ip in H. destruct (t_find_ip x perm c pr now sg d t) as [r n1] eqn:E.
    pose proof (t_find_time _ _ _ _ _ _ _ _ _ _ Hp E) as Hle.
    destruct r as [a|]; [|injection H as <- <- <-; apply stable_refl].
    destruct (t_hold_client x n1 (Some a) d ttl t) as [ok t2] eqn:Eh. injection H as <- <- <-.
    eapply t_hold_stable; [|exact Eh]. eapply unique_live_mono; eauto.
Qed.

Lemma t_final_stable h : forall x t now, clock_ok h -> unique_live now t -> stable t (fst (t_final x t now h)).
Proof.
  induction h as [|[dt op] h IH]; intros x t now Hc U; cbn [t_final]; [apply stable_refl|].
  inversion Hc as [|? ? [Hdt Hp] Hc']; subst. cbn [fst snd] in *.
  destruct (t_step x t (now + dt) op) as [[res t'] now'] eqn:E.
  assert (U0 : unique_live (now + dt) t) by (eapply unique_live_mono; [|exact U]; lia).
  destruct (t_step_unique _ _ _ _ _ _ _ Hp U0 E) as [U1 _].
  eapply stable_trans; [eapply t_step_stable; [exact Hp|exact U0|exact E]|apply IH; auto].
Qed.

(* once a permanent binding (a, d) exists it is what a lookup of d returns after any further history *)
Theorem permanent_forever h x t now p e :
  clock_ok h -> unique_live now t -> nth_error t p = Some e -> e_perm e = true ->
  t_lookup_by_duid (snd (t_final x t now h)) (e_duid e) (fst (t_final x t now h)) = Some (e_ip e) /\
  bound_duid (snd (t_final x t now h)) (e_ip e) (fst (t_final x t now h)) = Some (e_duid e).
Proof.
  intros Hc U Hn Hperm.
  destruct (t_run_unique h x t now Hc U) as [U' _].
  destruct (t_final_stable h x t now Hc U p e Hn) as (e' & N' & I' & D' & P').
  set (t' := fst (t_final x t now h)) in *. set (now' := snd (t_final x t now h)) in *.
  assert (L' : live now' e' = true) by (unfold live, expired; rewrite P', Hperm; reflexivity).
  unfold t_lookup_by_duid, bound_ip, bound_duid.
  assert (F1 : find_live now' (KDuid (e_duid e)) t' 0 = Some p).
  { apply find_live_some_iff; [exact U'|]. exists e'. repeat split; auto. cbn. apply bytes_eqb_eq. auto. }
  assert (F2 : find_live now' (KIp (e_ip e)) t' 0 = Some p).
  { apply find_live_some_iff; [exact U'|]. exists e'. repeat split; auto. cbn. apply N.eqb_eq. auto. }
  rewrite F1, F2, N'. cbn. split; congruence.
Qed.

(* expired, non-permanent bindings are invisible *)
Theorem expired_invisible now t p e k : nth_error t p = Some e -> e_perm e = false -> (e_until e < now)%Z ->
  find_live now k t 0 <> Some p.
Proof.
  intros Hn Hp Hu H. apply find_live_some in H as (_ & e0 & N0 & L0 & _). rewrite Nat.sub_0_r in N0.
  assert (e0 = e) by congruence. subst e0. unfold live, expired in L0. rewrite Hp in L0. cbn in L0. lia.
Qed.

(* ---------- the address search ---------- *)

Definition eligible (pr : N -> bool * Z) (tl : Z) (t : table) (a : N) : Prop :=
  find_live tl (KIp a) t 0 = None /\ uip_valid a = true /\ fst (pr a) = true.

Lemma t_search_sound cands : forall i c pr now0 x t a n1, (forall a, (0 <= snd (pr a))%Z) ->
  t_search cands i c pr now0 x t = (Some a, n1) ->
  exists v tl, In v cands /\ a = u32 (dyn_from x + v) /\ (now0 <= tl <= n1)%Z /\ eligible pr tl t a.
Proof.
  induction cands as [|v l IH]; intros i c pr n0 x t a n1 Hp E; cbn [t_search] in E; [discriminate|].
  destruct (c i); [discriminate|].
  destruct (find_live n0 (KIp (u32 (dyn_from x + v))) t 0) eqn:Ef.
  { destruct (IH _ _ _ _ _ _ _ _ Hp E) as (v' & tl & Hin & Ha & Ht & He). exists v', tl. cbn. auto. }
  destruct (uip_valid (u32 (dyn_from x + v))) eqn:Ev.
  2:{ destruct (IH _ _ _ _ _ _ _ _ Hp E) as (v' & tl & Hin & Ha & Ht & He). exists v', tl. cbn. auto. }
  destruct (pr (u32 (dyn_from x + v))) as [free dt] eqn:Epr.
  pose proof (Hp (u32 (dyn_from x + v))) as Hdt. rewrite Epr in Hdt. cbn in Hdt.
  destruct free.
  - injection E as <- <-. exists v, n0. split; [cbn; auto|]. split; [reflexivity|]. split; [lia|].
    unfold eligible. rewrite Epr. auto.
  - destruct (IH _ _ _ _ _ _ _ _ Hp E) as (v' & tl & Hin & Ha & Ht & He). exists v', tl. split; [cbn; auto|]. split; [exact Ha|]. split; [lia|exact He].
Qed.

Lemma t_search_complete cands : forall i c pr now0 x t n1, (forall a, (0 <= snd (pr a))%Z) -> (forall j, c j = false) ->
  t_search cands i c pr now0 x t = (None, n1) ->
  forall v, In v cands -> let a := u32 (dyn_from x + v) in uip_valid a = true -> fst (pr a) = true ->
  exists tl, (now0 <= tl)%Z /\ find_live tl (KIp a) t 0 <> None.
Proof.
  induction cands as [|v l IH]; intros i c pr n0 x t n1 Hp Hc E v0 Hin; [destruct Hin|].
  cbn [t_search] in E. rewrite Hc in E.
  destruct (find_live n0 (KIp (u32 (dyn_from x + v))) t 0) eqn:Ef.
  { destruct Hin as [<-|Hin]; [intros a _ _; exists n0; split; [lia|subst a; congruence]|]. eapply IH; eauto. }
  destruct (uip_valid (u32 (dyn_from x + v))) eqn:Ev.
  2:{ destruct Hin as [<-|Hin]; [intros a Hv; subst a; congruence|]. eapply IH; eauto. }
  destruct (pr (u32 (dyn_from x + v))) as [free dt] eqn:Epr.
  pose proof (Hp (u32 (dyn_from x + v))) as Hdt. rewrite Epr in Hdt. cbn in Hdt.
  destruct free; [discriminate|].
  destruct Hin as [<-|Hin]; [intros a _ Hf; subst a; rewrite Epr in Hf; discriminate|].
  intros a Hv Hf. destruct (IH _ _ _ _ _ _ _ Hp Hc E v0 Hin Hv Hf) as (tl & Hle & Hb). exists tl. split; [lia|exact Hb].
Qed.

Definition wf_ranges (x : ipdb) : Prop := dyn_from x <= dyn_to x /\ dyn_to x < 4294967296.

(* a client that holds a binding gets exactly that address back *)
Theorem find_ip_own x perm c pr now sg d t a :
  bound_ip now d t = Some a -> t_find_ip x perm c pr now sg d t = (Some a, now).
Proof. intros H. unfold t_find_ip. rewrite H. reflexivity. Qed.

(* otherwise any address returned lies in the search range, is unbound when it is looked at, is
   not a .0/.255 address and passed the conflict probe *)
Theorem find_ip_sound x perm c pr now sg d t a now' :
  wf_ranges x -> (forall a, (0 <= snd (pr a))%Z) -> Forall (fun v => v <= dyn_to x - dyn_from x) perm ->
  bound_ip now d t = None -> t_find_ip x perm c pr now sg d t = (Some a, now') ->
  dynamic_disabled x = false /\ dyn_from x <= a <= dyn_to x /\ exists tl, (now <= tl <= now')%Z /\ eligible pr tl t a.
Proof.
  intros (Hw1 & Hw2) Hp Hperm Hb H. unfold t_find_ip in H. rewrite Hb in H.
  destruct (dynamic_disabled x); [discriminate|]. split; [reflexivity|].
  set (n := match to_uip x sg with Some n => n | None => 0 end) in *.
  match type of H with t_search ?cs _ _ _ _ _ _ = _ => set (cands := cs) in * end.
  destruct (t_search_sound _ _ _ _ _ _ _ _ _ Hp H) as (v & tl & Hin & Ha & Ht & He).
  assert (Hv : v <= dyn_to x - dyn_from x).
  { assert (Hperm' : In v perm -> v <= dyn_to x - dyn_from x) by (rewrite Forall_forall in Hperm; auto).
    unfold cands in Hin. destruct (find_live now (KIp n) t 0); [auto|].
    destruct ((dyn_from x <=? n) && (n <=? dyn_to x)) eqn:Er; [|auto].
    destruct Hin as [<-|Hin]; [|auto]. unfold u32. lia. }
  split; [subst a; unfold u32; rewrite N.mod_small; lia|]. exists tl. auto.
Qed.

(* the suggested address is the one returned when it is eligible *)
Theorem find_ip_suggested x perm c pr now sg d t n :
  wf_ranges x -> to_uip x sg = Some n -> dyn_from x <= n <= dyn_to x -> dynamic_disabled x = false ->
  bound_ip now d t = None -> c 0%nat = false -> eligible pr now t n ->
  t_find_ip x perm c pr now sg d t = (Some n, (now + snd (pr n))%Z).
Proof.
  intros (Hw1 & Hw2) Hs Hr Hd Hb Hc (E1 & E2 & E3). unfold t_find_ip. rewrite Hb, Hd, Hs, E1.
  replace ((dyn_from x <=? n) && (n <=? dyn_to x)) with true by lia.
  cbn [t_search]. rewrite Hc.
  replace (u32 (dyn_from x + u32 (n + 4294967296 - dyn_from x))) with n by (unfold u32; lia).
  rewrite E1, E2. destruct (pr n) as [free dt]. cbn in E3. subst free. reflexivity.
Qed.

(* the search fails only when searching is disabled, it was cancelled, or no address of the range
   is eligible: every valid, probe-free address of the range was bound when the search began *)
Theorem find_ip_complete x perm c pr now sg d t now' :
  wf_ranges x -> (forall a, (0 <= snd (pr a))%Z) -> (forall j, c j = false) ->
  (forall a, dyn_from x <= a <= dyn_to x -> In (a - dyn_from x) perm) ->
  bound_ip now d t = None -> dynamic_disabled x = false ->
  t_find_ip x perm c pr now sg d t = (None, now') ->
  forall a, dyn_from x <= a <= dyn_to x -> uip_valid a = true -> fst (pr a) = true -> find_live now (KIp a) t 0 <> None.
Proof.
  intros (Hw1 & Hw2) Hp Hc Hperm Hb Hd H a Ha Hv Hf. unfold t_find_ip in H. rewrite Hb, Hd in H.
  match type of H with t_search ?cs _ _ _ _ _ _ = _ => set (cands := cs) in * end.
  assert (Hin : In (a - dyn_from x) cands).
  { unfold cands. destruct (find_live now (KIp _) t 0); [apply Hperm; exact Ha|].
    destruct ((dyn_from x <=? _) && _); [right|]; apply Hperm; exact Ha. }
  pose proof (t_search_complete _ _ _ _ _ _ _ _ Hp Hc H _ Hin) as Hcm. cbv zeta in Hcm.
  replace (u32 (dyn_from x + (a - dyn_from x))) with a in Hcm by (unfold u32; rewrite N.mod_small; lia).
  destruct (Hcm Hv Hf) as (tl & Hle & Hbd). eapply find_live_mono; eauto.
Qed.
