(* Side conditions the theorems need of the values that tools/gofacts read from the current /repo source.
   A source change to one of these constants or syntactic facts re-checks - or breaks - these lemmas. *)
From PSA Require Import gen.GoFacts model.Bytes model.Server.
Open Scope N_scope.

(* every exported *IPDB method starts with Lock(); defer Unlock(): database operations are atomic steps *)
Lemma cf_ipdb_methods_locked : gf_ipdb_methods_locked = true.
Proof. reflexivity. Qed.

(* handleDiscover touches the lease database in exactly one call (OfferIP: search and hold under one lock);
   handleRequest in the order range test, lookup, hold, update - the step structure the model has *)
Lemma cf_discover_single_db_step : gf_discover_single_db_step = true.
Proof. reflexivity. Qed.
Lemma cf_request_db_steps : gf_request_db_steps = true.
Proof. reflexivity. Qed.

(* run.go starts handlers with the decoded message passed by value *)
Lemma cf_handler_started_by_value : gf_handler_started_by_value = true.
Proof. reflexivity. Qed.

(* resolvconf.update: TempFile, Write, Close, Chmod, Rename in this order *)
Lemma cf_resolv_update_order : gf_resolv_update_order = true.
Proof. reflexivity. Qed.

(* the offer hold is positive and not longer than the shortest lease the server accepts (needed by sv_ok: H <= L) *)
Lemma cf_hold_le_min_lease : 0 < gf_offer_hold_ns /\ gf_offer_hold_ns <= gf_server_min_lease_ns.
Proof. split; reflexivity || (vm_compute; discriminate). Qed.

(* a whole ARP verification (tries x timeout) fits into the hold with room to spare: the hold refreshed before
   probing cannot run out before the lease is written *)
Lemma cf_probe_shorter_than_hold : 10 * (gf_arp_tries * gf_arp_timeout_ns) <= gf_offer_hold_ns.
Proof. vm_compute. discriminate. Qed.

(* the client's lower bound on the lease equals the server's, and both are one minute *)
Lemma cf_min_lease : gf_server_min_lease_ns = 60000000000 /\ gf_client_min_lease_ns = 60000000000.
Proof. split; reflexivity. Qed.

Lemma cf_ports : gf_reply_sport = 67 /\ gf_reply_dport = 68 /\ gf_client_sport = 68 /\ gf_client_dport = 67 /\ gf_client_listen_port = 68.
Proof. repeat split. Qed.

Lemma cf_wire_constants : gf_dhcpmsg_dhcpMinLen = 240 /\ gf_layer_ipv4Hlen = 20 /\ gf_layer_udpHlen = 8 /\ gf_layer_ProtoUDP = 17 /\
  gf_dhcpmsg_DHCPCookie = 1669485411 /\ gf_dhcpmsg_OptEnd = 255 /\ gf_dhcpmsg_OptPadding = 0.
Proof. repeat split. Qed.

Lemma cf_all_sites_located : gf_missing_count = 0.
Proof. reflexivity. Qed.
