From PSA Require Import model.Bytes model.Clients model.Ipdb spec.SpecTable spec.SpecIpdb proofs.ClientsProofs.
From Coq Require Import ZifyN ZifyNat ZifyBool.
Open Scope N_scope.

Definition same_ranges (x y : ipdb) : Prop :=
  net_from x = net_from y /\ net_to x = net_to y /\ dyn_from x = dyn_from y /\ dyn_to x = dyn_to y.

Lemma to_uip_ranges x y ip : same_ranges x y -> to_uip x ip = to_uip y ip.
Proof. intros (A & B & _ & _). unfold to_uip. rewrite A, B. reflexivity. Qed.

Lemma same_ranges_with_store x s : same_ranges (with_store x s) x.
Proof. unfold same_ranges. cbn. auto. Qed.

Lemma same_ranges_refl x : same_ranges x x.
Proof. unfold same_ranges. auto. Qed.

Ltac rsplit := repeat match goal with |- _ /\ _ => split end; try apply same_ranges_with_store; try apply same_ranges_refl.

Lemma lookup_by_duid_refines now d x r x' :
  Rep now (st x) -> lookup_by_duid now d x = (r, x') ->
  r = t_lookup_by_duid now d (heap (st x)) /\ heap (st x') = heap (st x) /\ Rep now (st x') /\ same_ranges x' x.
Proof.
  intros HR H. unfold lookup_by_duid in H.
  destruct (lookup now 0 d (st x)) as [[r1 r2] s'] eqn:El.
  destruct (lookup_refines _ _ _ _ _ _ _ HR El) as (Ht & Hh & HR' & _).
  unfold t_lookup in Ht. injection Ht as _ Hr2.
  unfold t_lookup_by_duid, bound_ip. rewrite <- Hr2, <- Hh.
  destruct r2 as [p|].
  - destruct (nth_error (heap s') p) as [e|]; injection H as <- <-; cbn; rsplit; auto.
  - injection H as <- <-. cbn. rsplit; auto.
Qed.

Lemma add_permanent_refines now ip d x ok x' :
  Rep now (st x) -> add_permanent now ip d x = (ok, x') ->
  (ok, heap (st x')) = t_add_permanent x now ip d (heap (st x)) /\ Rep now (st x') /\ same_ranges x' x.
Proof.
  intros HR H. unfold add_permanent, t_add_permanent in *.
  destruct (to_uip x ip) as [n|]; [|injection H as <- <-; rsplit; auto].
  destruct (inject now n d 0%Z true (st x)) as [ok' s'] eqn:Ei. injection H as <- <-.
  destruct (inject_refines _ _ _ _ _ _ _ _ HR Ei) as (Ht & HR'). cbn. rsplit; auto.
Qed.

Lemma update_client_refines now ip d ttl x ok x' :
  Rep now (st x) -> update_client now ip d ttl x = (ok, x') ->
  (ok, heap (st x')) = t_update_client x now ip d ttl (heap (st x)) /\ Rep now (st x') /\ same_ranges x' x.
Proof.
  intros HR H. unfold update_client, t_update_client in *.
  destruct (to_uip x ip) as [n|]; [|injection H as <- <-; rsplit; auto].
  destruct (set_lease now n d (now + ttl) (st x)) as [ok1 s1] eqn:E1.
  destruct (set_lease_refines _ _ _ _ _ _ _ HR E1) as (T1 & R1). rewrite <- T1.
  destruct ok1; [injection H as <- <-; cbn; rsplit; auto|].
  destruct (inject now n d (now + ttl) false s1) as [ok2 s2] eqn:E2.
  destruct (inject_refines _ _ _ _ _ _ _ _ R1 E2) as (T2 & R2). rewrite <- T2.
  destruct ok2; cbn [negb] in *; [|injection H as <- <-; cbn; rsplit; auto].
  destruct (set_lease now n d (now + ttl) s2) as [ok3 s3] eqn:E3.
  destruct (set_lease_refines _ _ _ _ _ _ _ R2 E3) as (T3 & R3). rewrite <- T3.
  injection H as <- <-. cbn. rsplit; auto.
Qed.

Lemma search_refines cands : forall i cancelled probe now x s r s' now',
  (forall a, (0 <= snd (probe a))%Z) -> Rep now s ->
  search cands i cancelled probe now x s = (r, s', now') ->
  (r, now') = t_search cands i cancelled probe now x (heap s) /\ heap s' = heap s /\ Rep now' s' /\ (now <= now')%Z.
Proof.
  induction cands as [|v cands IH]; intros i cancelled probe now x s r s' now' Hp HR H; cbn [search t_search] in *.
  - injection H as <- <- <-. rsplit; auto. lia.
  - destruct (cancelled i); [injection H as <- <- <-; rsplit; auto; try lia|].
    destruct (lookup now (u32 (dyn_from x + v)) [] s) as [[e o] s1] eqn:El.
    destruct (lookup_refines _ _ _ _ _ _ _ HR El) as (Ht & Hh & HR1 & _).
    unfold t_lookup in Ht. injection Ht as He _. rewrite <- He.
    destruct e as [p|].
    + destruct (IH _ _ _ _ _ _ _ _ _ Hp HR1 H) as (A & B & C & D). rewrite Hh in A. rsplit; auto. congruence.
    + destruct (uip_valid (u32 (dyn_from x + v))).
      * destruct (probe (u32 (dyn_from x + v))) as [free dt] eqn:Epr.
        pose proof (Hp (u32 (dyn_from x + v))) as Hdt. rewrite Epr in Hdt. cbn in Hdt.
        destruct free.
        -- injection H as <- <- <-. rsplit; auto; [eapply Rep_mono; [|exact HR1]; lia|lia].
        -- assert (HR2 : Rep (now + dt) s1) by (eapply Rep_mono; [|exact HR1]; lia).
           destruct (IH _ _ _ _ _ _ _ _ _ Hp HR2 H) as (A & B & C & D). rewrite Hh in A. rsplit; auto; [congruence|lia].
      * destruct (IH _ _ _ _ _ _ _ _ _ Hp HR1 H) as (A & B & C & D). rewrite Hh in A. rsplit; auto. congruence.
Qed.

Lemma find_ip_refines perm cancelled probe now sugg d x r x' now' :
  (forall a, (0 <= snd (probe a))%Z) -> Rep now (st x) ->
  find_ip perm cancelled probe now sugg d x = (r, x', now') ->
  (r, now') = t_find_ip x perm cancelled probe now sugg d (heap (st x)) /\ heap (st x') = heap (st x) /\
  Rep now' (st x') /\ same_ranges x' x /\ (now <= now')%Z.
Proof.
  intros Hp HR H. unfold find_ip, t_find_ip in *.
  set (n := match to_uip x sugg with Some n => n | None => 0 end) in *.
  destruct (lookup now n d (st x)) as [[oip oduid] s1] eqn:El.
  destruct (lookup_refines _ _ _ _ _ _ _ HR El) as (Ht & Hh & HR1 & _).
  unfold t_lookup in Ht. injection Ht as Hoip Hod. unfold bound_ip. rewrite <- Hod, <- Hoip.
  destruct oduid as [p|].
  - symmetry in Hod. apply find_live_some in Hod as (_ & e & Hne & _). rewrite Nat.sub_0_r in Hne.
    rewrite <- Hh in Hne |- *. rewrite Hne in *. injection H as <- <- <-; cbn; rsplit; auto; try lia.
  - destruct (dynamic_disabled x); [injection H as <- <- <-; cbn; rsplit; auto; try lia|].
    match type of H with context [search ?c _ _ _ _ _ _] => set (cands := c) in * end.
    destruct (search cands 0 cancelled probe now x s1) as [[r0 s2] t0] eqn:Es. injection H as <- <- <-.
    destruct (search_refines _ _ _ _ _ _ _ _ _ _ Hp HR1 Es) as (A & B & C & D).
    rewrite Hh in A. cbn. rsplit; auto. congruence.
Qed.

Lemma t_update_client_ranges x y now ip d ttl t : same_ranges x y -> t_update_client x now ip d ttl t = t_update_client y now ip d ttl t.
Proof. intros S. unfold t_update_client. rewrite (to_uip_ranges x y ip S). reflexivity. Qed.

Lemma t_hold_client_ranges x y now ip d ttl t : same_ranges x y -> t_hold_client x now ip d ttl t = t_hold_client y now ip d ttl t.
Proof. intros S. unfold t_hold_client. rewrite (to_uip_ranges x y ip S), (t_update_client_ranges x y now ip d ttl t S). reflexivity. Qed.

Lemma hold_client_refines now ip d ttl x ok x' :
  Rep now (st x) -> hold_client now ip d ttl x = (ok, x') ->
  (ok, heap (st x')) = t_hold_client x now ip d ttl (heap (st x)) /\ Rep now (st x') /\ same_ranges x' x.
Proof.
  intros HR H. unfold hold_client, t_hold_client in *.
  destruct (to_uip x ip) as [n|] eqn:Eu; [|injection H as <- <-; rsplit; auto].
  destruct (lookup now n d (st x)) as [[r1 r2] s1] eqn:El.
  destruct (lookup_refines _ _ _ _ _ _ _ HR El) as (Ht & Hh & HR1 & _). rewrite <- Ht.
  assert (Hupd : forall ok0 x0, update_client now ip d ttl (with_store x s1) = (ok0, x0) ->
            (ok0, heap (st x0)) = t_update_client x now ip d ttl (heap (st x)) /\ Rep now (st x0) /\ same_ranges x0 x).
  { intros ok0 x0 E. destruct (update_client_refines now ip d ttl (with_store x s1) ok0 x0 HR1 E) as (T & R & S).
    cbn [st with_store] in T. rewrite Hh in T.
    rewrite (t_update_client_ranges _ x _ _ _ _ _ (same_ranges_with_store x s1)) in T.
    rsplit; auto. }
  destruct r1 as [p|]; [|apply Hupd; exact H].
  destruct r2 as [q|]; [|apply Hupd; exact H].
  destruct (Nat.eqb p q); [|apply Hupd; exact H].
  replace (nth_error (heap (st x)) p) with (nth_error (heap s1) p) by (rewrite Hh; reflexivity).
  destruct (nth_error (heap s1) p) as [e|]; [|apply Hupd; exact H].
  destruct (now + ttl <? e_until e)%Z; [|apply Hupd; exact H].
  injection H as <- <-. cbn. rewrite Hh. rsplit; auto.
Qed.

Lemma offer_ip_refines perm cancelled probe now sugg d ttl x r x' now' :
  (forall a, (0 <= snd (probe a))%Z) -> Rep now (st x) ->
  offer_ip perm cancelled probe now sugg d ttl x = (r, x', now') ->
  (r, heap (st x'), now') = t_offer_ip x perm cancelled probe now sugg d ttl (heap (st x)) /\
  Rep now' (st x') /\ same_ranges x' x /\ (now <= now')%Z.
Proof.
  intros Hp HR H. unfold offer_ip, t_offer_ip in *.
  destruct (find_ip perm cancelled probe now sugg d x) as [[r0 x1] t1] eqn:Ef.
  destruct (find_ip_refines _ _ _ _ _ _ _ _ _ _ Hp HR Ef) as (T & Hh & R1 & S1 & L). rewrite <- T.
  destruct r0 as [a|]; [|injection H as <- <- <-; rewrite Hh; rsplit; auto].
  destruct (hold_client t1 (Some a) d ttl x1) as [ok x2] eqn:Eh. injection H as <- <- <-.
  destruct (hold_client_refines _ _ _ _ _ _ _ R1 Eh) as (T2 & R2 & S2).
  rewrite Hh in T2. rewrite (t_hold_client_ranges x1 x _ _ _ _ _ S1) in T2. rewrite <- T2.
  rsplit; auto. destruct S1 as (A1 & B1 & C1 & D1), S2 as (A2 & B2 & C2 & D2). unfold same_ranges. rsplit; congruence.
Qed.

(* ---------- one step, then whole histories ---------- *)

Lemma c_step_refines x now op res x' now' :
  probe_nonneg op -> Rep now (st x) -> c_step x now op = (res, x', now') ->
  t_step x (heap (st x)) now op = (res, heap (st x'), now') /\ Rep now' (st x') /\ same_ranges x' x /\ (now <= now')%Z.
Proof.
  intros Hp HR H. destruct op as [ip d ttl|d|ip d|perm c pr sg d|ip d ttl|perm c pr sg d ttl]; cbn [c_step t_step] in *.
  - destruct (update_client now ip d ttl x) as [ok x1] eqn:E. injection H as <- <- <-.
    destruct (update_client_refines _ _ _ _ _ _ _ HR E) as (T & R & S). rewrite <- T. rsplit; auto; try apply S. lia.
  - destruct (lookup_by_duid now d x) as [r x1] eqn:E. injection H as <- <- <-.
    destruct (lookup_by_duid_refines _ _ _ _ _ HR E) as (T & Hh & R & S). rewrite <- T, Hh. rsplit; auto; try apply S. lia.
  - destruct (add_permanent now ip d x) as [ok x1] eqn:E. injection H as <- <- <-.
    destruct (add_permanent_refines _ _ _ _ _ _ HR E) as (T & R & S). rewrite <- T. rsplit; auto; try apply S. lia.
  - destruct (find_ip perm c pr now sg d x) as [[r x1] n1] eqn:E. injection H as <- <- <-.
    destruct (find_ip_refines _ _ _ _ _ _ _ _ _ _ Hp HR E) as (T & Hh & R & S & L). rewrite <- T, Hh. rsplit; auto; apply S.
  - destruct (hold_client now ip d ttl x) as [ok x1] eqn:E. injection H as <- <- <-.
    destruct (hold_client_refines _ _ _ _ _ _ _ HR E) as (T & R & S). rewrite <- T. rsplit; auto; try apply S. lia.
  - destruct (offer_ip perm c pr now sg d ttl x) as [[r x1] n1] eqn:E. injection H as <- <- <-.
    destruct (offer_ip_refines _ _ _ _ _ _ _ _ _ _ _ Hp HR E) as (T & R & S & L). rewrite <- T. rsplit; auto; apply S.
Qed.

Lemma t_find_ip_ranges x y perm c pr now sg d t : same_ranges x y -> t_find_ip x perm c pr now sg d t = t_find_ip y perm c pr now sg d t.
Proof.
  intros S. pose proof S as (A & B & C & D).
  unfold t_find_ip, dynamic_disabled. rewrite (to_uip_ranges x y sg S), C, D.
  assert (forall cands i now0, t_search cands i c pr now0 x t = t_search cands i c pr now0 y t) as Hs.
  { induction cands as [|v cands IH]; intros i now0; cbn [t_search]; [reflexivity|]. rewrite C.
    destruct (c i); [reflexivity|]. destruct (find_live now0 (KIp (u32 (dyn_from y + v))) t 0); [apply IH|].
    destruct (uip_valid (u32 (dyn_from y + v))); [|apply IH].
    destruct (pr (u32 (dyn_from y + v))) as [free dt]. destruct free; [reflexivity|apply IH]. }
  destruct (bound_ip now d t); [reflexivity|]. destruct ((dyn_to y =? 0) && (dyn_from y =? 0)); [reflexivity|].
  rewrite Hs. reflexivity.
Qed.

Lemma t_step_ranges x y t now op : same_ranges x y -> t_step x t now op = t_step y t now op.
Proof.
  intros S. pose proof S as (A & B & C & D).
  destruct op as [ip d ttl|d|ip d|perm c pr sg d|ip d ttl|perm c pr sg d ttl]; cbn [t_step].
  - unfold t_update_client. rewrite (to_uip_ranges x y ip S). reflexivity.
  - reflexivity.
  - unfold t_add_permanent. rewrite (to_uip_ranges x y ip S). reflexivity.
  - rewrite (t_find_ip_ranges x y _ _ _ _ _ _ _ S). reflexivity.
  - rewrite (t_hold_client_ranges x y _ _ _ _ _ S). reflexivity.
  - unfold t_offer_ip. rewrite (t_find_ip_ranges x y _ _ _ _ _ _ _ S).
    destruct (t_find_ip y perm c pr now sg d t) as [r n1]. destruct r; [|reflexivity].
    rewrite (t_hold_client_ranges x y _ _ _ _ _ S). reflexivity.
Qed.

Lemma t_run_ranges h : forall x y t now, same_ranges x y -> t_run x t now h = t_run y t now h.
Proof.
  induction h as [|[dt op] h IH]; intros x y t now S; cbn [t_run]; [reflexivity|].
  rewrite (t_step_ranges x y _ _ _ S). destruct (t_step y t (now + dt) op) as [[res t'] now']. f_equal. apply IH. exact S.
Qed.

(* C11, refinement: for every history with a non-decreasing clock the concrete two-key store
   answers exactly as the reference table does *)
Theorem c_run_refines h : forall x now, clock_ok h -> Rep now (st x) -> c_run x now h = t_run x (heap (st x)) now h.
Proof.
  induction h as [|[dt op] h IH]; intros x now Hc HR; cbn [c_run t_run]; [reflexivity|].
  inversion Hc as [|? ? [Hdt Hp] Hc']; subst. cbn [fst snd] in *.
  assert (HR0 : Rep (now + dt) (st x)) by (eapply Rep_mono; [|exact HR]; lia).
  destruct (c_step x (now + dt) op) as [[res x'] now'] eqn:E.
  destruct (c_step_refines _ _ _ _ _ _ Hp HR0 E) as (T & R & S & L). rewrite T. f_equal.
  rewrite (IH x' now' Hc' R). apply t_run_ranges. exact S.
Qed.
