From PSA Require Import model.Bytes model.Checksum spec.SpecCodec.
From Coq Require Import ZifyN ZifyNat ZifyBool.
Ltac Zify.zify_post_hook ::= Z.div_mod_to_equations.
Open Scope N_scope.

Lemma wf_bytes_cons x b : wf_bytes (x :: b) = true <-> x < 256 /\ wf_bytes b = true.
Proof. unfold wf_bytes, wf_byte; cbn [forallb]. rewrite andb_true_iff, N.ltb_lt. tauto. Qed.

Lemma wf_bytes_app a b : wf_bytes (a ++ b) = true <-> wf_bytes a = true /\ wf_bytes b = true.
Proof. unfold wf_bytes. rewrite forallb_app, andb_true_iff. tauto. Qed.

Lemma be16_bound hi lo : hi < 256 -> lo < 256 -> be16 hi lo <= 65535.
Proof. unfold be16; lia. Qed.

(* a strong induction principle stepping two bytes at a time *)
Lemma bytes_ind2 (P : list N -> Prop) :
  P [] -> (forall x, P [x]) -> (forall x y r, P r -> P (x :: y :: r)) -> forall b : list N, P b.
Proof.
  intros H0 H1 H2. fix IH 1. intros [|x [|y r]]; [exact H0 | apply H1 | apply H2, IH].
Qed.

Lemma ones_sum_bound b : wf_bytes b = true -> ones_sum b <= 65535 * ((len b + 1) / 2).
Proof.
  unfold len. induction b as [| x | x y r IH] using bytes_ind2; intros Hwf.
  - cbn. lia.
  - apply wf_bytes_cons in Hwf as [Hx _]. cbn [ones_sum length]. unfold be16.
    change (N.of_nat 1) with 1. change ((1 + 1) / 2) with 1. lia.
  - apply wf_bytes_cons in Hwf as [Hx Hwf]. apply wf_bytes_cons in Hwf as [Hy Hwf].
    specialize (IH Hwf). cbn [ones_sum length]. pose proof (be16_bound x y Hx Hy).
    replace (N.of_nat (S (S (length r)))) with (N.of_nat (length r) + 2) by lia.
    replace ((N.of_nat (length r) + 2 + 1) / 2) with ((N.of_nat (length r) + 1) / 2 + 1) by lia.
    lia.
Qed.

Lemma sum_words_nowrap b : forall acc, wf_bytes b = true ->
  acc + ones_sum b < 4294967296 -> sum_words b acc = acc + ones_sum b.
Proof.
  induction b as [| x | x y r IH] using bytes_ind2; intros acc Hwf Hlt.
  - cbn. lia.
  - cbn [sum_words ones_sum] in *. unfold u32, be16 in *. rewrite N.mod_small; lia.
  - apply wf_bytes_cons in Hwf as [Hx Hwf]. apply wf_bytes_cons in Hwf as [Hy Hwf].
    cbn [sum_words ones_sum] in *. unfold u32, be16 in *.
    rewrite (N.mod_small (acc + x * 256)) by lia.
    rewrite (N.mod_small (acc + x * 256 + y)) by lia.
    rewrite IH; [lia | assumption | lia].
Qed.

Lemma fold16_spec a : a < 4294967296 ->
  fold16 a <= 65535 /\ fold16 a mod 65535 = a mod 65535 /\ (fold16 a = 0 <-> a = 0).
Proof.
  intros Ha. unfold fold16. cbn [fold_loop].
  destruct (a <=? 65535) eqn:E1; [split; [lia|split; [reflexivity|reflexivity]]|].
  set (a1 := u32 (a / 65536 + a mod 65536)).
  assert (Ha1 : a1 = a / 65536 + a mod 65536) by (unfold a1, u32; rewrite N.mod_small; lia).
  assert (Hm1 : a1 mod 65535 = a mod 65535).
  { transitivity ((a1 + (a / 65536) * 65535) mod 65535); [rewrite N.mod_add by lia; reflexivity | f_equal; lia]. }
  assert (Hb1 : a1 <= 131070 /\ 0 < a1) by lia.
  destruct (a1 <=? 65535) eqn:E2; [split; [lia|split; [assumption|lia]]|].
  set (a2 := u32 (a1 / 65536 + a1 mod 65536)).
  assert (Ha2 : a2 = a1 / 65536 + a1 mod 65536) by (unfold a2, u32; rewrite N.mod_small; lia).
  assert (Hm2 : a2 mod 65535 = a1 mod 65535).
  { transitivity ((a2 + (a1 / 65536) * 65535) mod 65535); [rewrite N.mod_add by lia; reflexivity | f_equal; lia]. }
  assert (Hb2 : a2 <= 65535 /\ 0 < a2) by lia.
  destruct (a2 <=? 65535) eqn:E3; [split; [lia|split; [congruence|lia]]|lia].
Qed.

Lemma ones_sum_app a b : Nat.even (length a) = true -> ones_sum (a ++ b) = ones_sum a + ones_sum b.
Proof.
  induction a as [| x | x y r IH] using bytes_ind2; intros He.
  - reflexivity.
  - discriminate.
  - cbn [length Nat.even] in He. cbn [app ones_sum]. rewrite IH by assumption. lia.
Qed.

Lemma put16_be16 c : c < 65536 -> be16 (c / 256 mod 256) (c mod 256) = c.
Proof. unfold be16; lia. Qed.

Lemma ones_sum_put16 c : c < 65536 -> ones_sum (put16 c) = c.
Proof. intros. unfold put16. cbn [ones_sum]. rewrite put16_be16 by assumption. lia. Qed.

Lemma wf_put16 c : wf_bytes (put16 c) = true.
Proof. unfold put16, wf_bytes, wf_byte; cbn [forallb]. rewrite !andb_true_iff, !N.ltb_lt. lia. Qed.

Lemma wf_put32 c : wf_bytes (put32 c) = true.
Proof. unfold put32, wf_bytes, wf_byte; cbn [forallb]. rewrite !andb_true_iff, !N.ltb_lt. lia. Qed.

(* The generic insertion lemma: computing c = ~fold(extra + sum with field zero) and
   writing it into the (word-aligned) field makes the total verify. *)
Lemma csum_insert_verifies pre post extra :
  Nat.even (length pre) = true ->
  let S := extra + ones_sum (pre ++ [0; 0] ++ post) in
  S < 4294967296 ->
  let c := not16 (fold16 S) in
  let T := extra + ones_sum (pre ++ put16 c ++ post) in
  c < 65536 /\ 0 < T /\ T mod 65535 = 0.
Proof.
  intros He S HS c T.
  destruct (fold16_spec S HS) as (Hle & Hmod & Hz).
  assert (Hc : c = 65535 - fold16 S) by (unfold c, not16; rewrite N.mod_small; lia).
  assert (Hc' : c < 65536) by lia.
  split; [assumption|].
  assert (HT : T = S + c).
  { pose proof (ones_sum_app pre (put16 c ++ post) He) as E1.
    pose proof (ones_sum_app pre ([0; 0] ++ post) He) as E2.
    unfold T, S. rewrite E1, E2.
    change (put16 c ++ post) with ([c / 256 mod 256; c mod 256] ++ post).
    cbn [app ones_sum]. rewrite put16_be16 by assumption. unfold be16. lia. }
  rewrite HT, Hc. split.
  - destruct (N.eq_dec S 0) as [E|E]; [apply Hz in E; lia | lia].
  - assert (E: (S + (65535 - fold16 S)) = (S - fold16 S) + 1 * 65535).
    { assert (fold16 S <= S). { destruct (N.le_gt_cases S 65535); [|lia].
        unfold fold16; cbn [fold_loop]. replace (S <=? 65535) with true by lia. lia. }
      lia. }
    rewrite E. rewrite N.mod_add by lia.
    assert (fold16 S <= S).
    { destruct (N.le_gt_cases S 65535); [|lia].
      unfold fold16; cbn [fold_loop]. replace (S <=? 65535) with true by lia. lia. }
    lia.
Qed.
