(* C19 - resource model: every routine of /repo that opens a socket, as a small process.

   A process is a term over the events
     Open k (ok / fail)   rsocks.Get...Sock: the oracle decides whether it fails ("Fail" = the fail branch)
     Write (ok / fail)    a write on the socket the process holds; the oracle decides
     Close                Close() of the socket the process holds
     Spawn child          a `go` statement (the child captures the parent's socket variable and context)
     Push timed / Pop     context.WithTimeout / WithCancel (WithDeadline)  and the (deferred) cancel of it
     WaitDone             <-ctx.Done()
     IfDone               ctx.Err() != nil
     Select timer done    select { case <-time.After(..): ...; case <-ctx.Done(): ... }
     Read pkt err         a blocking Read: returns an error once the socket is closed; a packet is an external event
                          (packets the routine ignores are stutter steps and not represented)
     Sleep                time.Sleep: a wait that no context interrupts (the 50 ms reply delay of the server)
     Branch               a data-dependent branch (decided by the oracle)
     Loop / Again         for { ... continue }
   and the semantics runs a pool of such processes under an oracle (list of choices: which process moves, whether
   its open/write fails, which way a branch goes, whether a packet arrives / a timer fires, when the root context is
   cancelled, which timeout context expires).  Sockets carry identities (the value of the open counter), so "closed
   exactly once" is meaningful: closing a socket that is not open sets the flag [dbl].

   The control structure follows lib/arpping/arpping.go, lib/server/{run,utils,netio}.go,
   lib/client/dclient/{netio,dclient,sysstates,dhcpstates}.go line by line (see the comments at each program).
   Models only; proofs are in proofs/ResProofs.v. *)
From Coq Require Import List NArith Bool Arith.
Import ListNotations.
From PSA Require Import gen.GoFacts.
Local Open Scope nat_scope.

Inductive kind := KIpRecv | KArpRecv | KArpSend | KUcSend | KIpSend.

Inductive proc :=
| Halt
| Open (k : kind) (ok fail : proc)
| Write (ok fail : proc)
| Close (p : proc)
| Spawn (child p : proc)
| Push (timed : bool) (p : proc)
| Pop (p : proc)
| WaitDone (p : proc)
| IfDone (d nd : proc)
| Select (timer done : proc)
| Read (pkt err : proc)
| Sleep (p : proc)
| Branch (p q : proc)
| Loop (body : proc)
| Again.

(* one goroutine: remaining code, body of the innermost loop entered, the socket variable, the context (path of
   derived contexts, innermost first; the root context is implicit) *)
Record pc := mkpc { code : proc; lreg : proc; own : option nat; cpath : list nat }.

Record glob := mkg {
  live : list nat;        (* identities of the open sockets *)
  nopen : nat;            (* successful opens so far (= next identity) *)
  nclose : nat;           (* successful closes so far *)
  dbl : bool;             (* a Close hit a socket that was not open (double close / close of nothing) *)
  nctx : nat;             (* next context identity *)
  timedc : list nat;      (* contexts that carry a timeout or deadline *)
  cancelled : list nat;   (* cancelled or expired derived contexts *)
  rootc : bool;           (* the root context (sx.ctx / dx.ctx) has been cancelled *)
  olog : list kind        (* kinds of the sockets opened, most recent first *)
}.

Record st := mkst { procs : list pc; gl : glob }.

Definition mem (x : nat) (l : list nat) : bool := existsb (Nat.eqb x) l.
Definition rm (x : nat) (l : list nat) : list nat := filter (fun y => negb (Nat.eqb x y)) l.
Definition isdone (g : glob) (path : list nat) : bool := rootc g || existsb (fun c => mem c (cancelled g)) path.

Definition g_open (k : kind) (g : glob) : glob :=
  mkg (nopen g :: live g) (S (nopen g)) (nclose g) (dbl g) (nctx g) (timedc g) (cancelled g) (rootc g) (k :: olog g).
Definition g_close (id : nat) (g : glob) : glob :=
  mkg (rm id (live g)) (nopen g) (S (nclose g)) (dbl g) (nctx g) (timedc g) (cancelled g) (rootc g) (olog g).
Definition g_dbl (g : glob) : glob :=
  mkg (live g) (nopen g) (nclose g) true (nctx g) (timedc g) (cancelled g) (rootc g) (olog g).
Definition g_push (t : bool) (g : glob) : glob :=
  mkg (live g) (nopen g) (nclose g) (dbl g) (S (nctx g)) (if t then nctx g :: timedc g else timedc g) (cancelled g) (rootc g) (olog g).
Definition g_cancel (c : nat) (g : glob) : glob :=
  mkg (live g) (nopen g) (nclose g) (dbl g) (nctx g) (timedc g) (c :: cancelled g) (rootc g) (olog g).
Definition g_root (g : glob) : glob :=
  mkg (live g) (nopen g) (nclose g) (dbl g) (nctx g) (timedc g) (cancelled g) true (olog g).

Definition sock_open (g : glob) (p : pc) : bool := match own p with Some id => mem id (live g) | None => false end.

(* one step of one process.  [ext]: an external event happens now (a packet arrives at a Read, the timer of a Select
   fires); [a]: the outcome the oracle picks (open/write fails, second branch).  None = not enabled (blocked/halted). *)
Definition pstep (ext a : bool) (g : glob) (p : pc) : option (pc * list pc * glob) :=
  let k c := mkpc c (lreg p) (own p) (cpath p) in
  match code p with
  | Halt => None
  | Open kd ok fail =>
      if a then Some (k fail, [], g)
      else Some (mkpc ok (lreg p) (Some (nopen g)) (cpath p), [], g_open kd g)
  | Write ok fail => Some (k (if a then fail else ok), [], g)
  | Close q =>
      match own p with
      | Some id => if mem id (live g) then Some (k q, [], g_close id g) else Some (k q, [], g_dbl g)
      | None => Some (k q, [], g_dbl g)
      end
  | Spawn c q => Some (k q, [mkpc c Halt (own p) (cpath p)], g)
  | Push t q => Some (mkpc q (lreg p) (own p) (nctx g :: cpath p), [], g_push t g)
  | Pop q => Some (mkpc q (lreg p) (own p) (tl (cpath p)), [], match cpath p with c :: _ => g_cancel c g | [] => g end)
  | WaitDone q => if isdone g (cpath p) then Some (k q, [], g) else None
  | IfDone d nd => Some (k (if isdone g (cpath p) then d else nd), [], g)
  | Select t d => if ext then Some (k t, [], g) else if isdone g (cpath p) then Some (k d, [], g) else None
  | Read m e => if sock_open g p then (if ext then Some (k m, [], g) else None) else Some (k e, [], g)
  | Sleep q => Some (k q, [], g)
  | Branch x y => Some (k (if a then y else x), [], g)
  | Loop b => Some (mkpc b b (own p) (cpath p), [], g)
  | Again => Some (mkpc (lreg p) (lreg p) (own p) (cpath p), [], g)
  end.

Inductive choice :=
| CStep (i : nat) (ext a : bool)   (* process i moves *)
| CCancel                          (* cancel() of the root context *)
| CTimeout (c : nat).              (* the timeout/deadline of derived context c expires *)

Definition upd {A} (i : nat) (x : A) (l : list A) : list A := firstn i l ++ x :: skipn (S i) l.

(* Some s' = the choice was enabled *)
Definition exec_opt (s : st) (c : choice) : option st :=
  match c with
  | CStep i ext a =>
      match nth_error (procs s) i with
      | Some p => match pstep ext a (gl s) p with
                  | Some (p', sp, g') => Some (mkst (upd i p' (procs s) ++ sp) g')
                  | None => None
                  end
      | None => None
      end
  | CCancel => Some (mkst (procs s) (g_root (gl s)))
  | CTimeout c => if mem c (timedc (gl s)) then Some (mkst (procs s) (g_cancel c (gl s))) else None
  end.
Definition exec (s : st) (c : choice) : st := match exec_opt s c with Some s' => s' | None => s end.
Definition run (s : st) (cs : list choice) : st := fold_left exec cs s.
(* number of choices of an oracle that were enabled (actual steps) *)
Fixpoint nsteps (s : st) (cs : list choice) : nat :=
  match cs with [] => 0 | c :: r => match exec_opt s c with Some s' => S (nsteps s' r) | None => nsteps s r end end.

Definition g0 : glob := mkg [] 0 0 false 0 [] [] false [].
Definition init (p : proc) : st := mkst [mkpc p Halt None []] g0.
Definition halted (p : pc) : bool := match code p with Halt => true | _ => false end.
Definition terminated (s : st) : bool := forallb halted (procs s).
Definition opens (s : st) : nat := nopen (gl s).
Definition closes (s : st) : nat := nclose (gl s).

(* an oracle is quiet when no packet arrives, no timer fires, nobody cancels: what happens after cancellation
   if the environment stays silent *)
Definition quiet_choice (c : choice) : bool := match c with CStep _ false _ => true | _ => false end.

(* ---------------------------------------------------------------------------------------------------------- *)
(* static discipline: who is responsible for closing the socket a process holds.
   wt L o p: p can run in a process that is (o = true) / is not (o = false) responsible for its socket variable;
   L = the responsibility at the head of the innermost loop.  A process may only halt when it is not responsible,
   only Close when it is, only Open when it is not, only block in Read on a socket somebody else will close; a
   spawned child takes the responsibility over if it can (the close-on-Done goroutines). *)
Fixpoint wt (L : option bool) (o : bool) (p : proc) : bool :=
  match p with
  | Halt => negb o
  | Open _ ok fail => negb o && wt L true ok && wt L false fail
  | Write x y => wt L o x && wt L o y
  | Close q => o && wt L false q
  | Spawn c q => if o && wt None true c then wt L false q else wt None false c && wt L o q
  | Push _ q => wt L o q
  | Pop q => wt L o q
  | WaitDone q => wt L o q
  | IfDone x y => wt L o x && wt L o y
  | Select x y => wt L o x && wt L o y
  | Read m e => negb o && wt L o m && wt L o e
  | Sleep q => wt L o q
  | Branch x y => wt L o x && wt L o y
  | Loop b => wt (Some o) o b
  | Again => match L with Some o' => Bool.eqb o o' | None => false end
  end.

(* loops: along the paths a cancelled process takes (Select -> done, IfDone -> done, Read -> error) the loop is left *)
Fixpoint qna (p : proc) : bool :=
  match p with
  | Halt => true
  | Open _ x y | Write x y | Branch x y => qna x && qna y
  | Close q | Push _ q | Pop q | WaitDone q | Sleep q => qna q
  | Spawn _ q => qna q
  | IfDone d _ => qna d
  | Select _ d => qna d
  | Read _ e => qna e
  | Loop _ => true
  | Again => false
  end.
Fixpoint lok (p : proc) : bool :=
  match p with
  | Halt | Again => true
  | Open _ x y | Write x y | Branch x y | IfDone x y | Select x y | Read x y | Spawn x y => lok x && lok y
  | Close q | Push _ q | Pop q | WaitDone q | Sleep q => lok q
  | Loop b => qna b && lok b
  end.

(* worst-case number of steps a process still makes once every context it looks at is done and the environment is
   silent; [a] = the cost of re-entering the innermost loop *)
Fixpoint dcost (a : nat) (p : proc) : nat :=
  match p with
  | Halt => 0
  | Open _ x y | Write x y | Branch x y => S (Nat.max (dcost a x) (dcost a y))
  | Close q | Push _ q | Pop q | WaitDone q | Sleep q => S (dcost a q)
  | Spawn c q => S (dcost 0 c + dcost a q)
  | IfDone d _ => S (dcost a d)
  | Select _ d => S (dcost a d)
  | Read _ e => S (dcost a e)
  | Loop b => S (dcost 0 b)
  | Again => S a
  end.
Definition pcost (p : pc) : nat := dcost (dcost 0 (lreg p)) (code p).
Definition cost (s : st) : nat := fold_right (fun p n => pcost p + n) 0 (procs s).

(* number of constructors: bounds dcost *)
Fixpoint size (p : proc) : nat :=
  match p with
  | Halt | Again => 1
  | Open _ x y | Write x y | Branch x y | IfDone x y | Select x y | Read x y | Spawn x y => S (size x + size y)
  | Close q | Push _ q | Pop q | WaitDone q | Sleep q | Loop q => S (size q)
  end.

(* ---------------------------------------------------------------------------------------------------------- *)
(* the programs *)

(* go func() { <-ctx.Done(); rs.Close() }()   (arpping.go:32-35, run.go:23-26, dclient/netio.go:82-85) *)
Definition closer : proc := WaitDone (Close Halt).

(* arpping.sendARPPing: open (failure: return), defer Close, for { Write (result ignored); select { After(1s):
   continue; Done: return } } *)
Definition arp_sender : proc :=
  Open KArpSend (Loop (Write (Select Again (Close Halt)) (Select Again (Close Halt)))) Halt.

(* arpping.Ping: actx := WithTimeout(ctx, 200ms); defer acancel; go sendARPPing(actx); catchARPReply(actx):
   open the receive socket (failure: return err), ctx := WithCancel(actx); defer cancel; go closer; read until a
   matching reply (kreply) or an error (kerr) *)
Definition ping (kreply kerr : proc) : proc :=
  Push true (Spawn arp_sender
    (Open KArpRecv
       (Push false (Spawn closer (Read (Pop (Pop kreply)) (Pop (Pop kerr)))))
       (Pop kerr))).

(* server.sendUnicast: open (failure: return), Write (result ignored), Close *)
Definition send_unicast (k : proc) : proc := Open KUcSend (Write (Close k) (Close k)) k.

(* server.arpVerify: up to n Pings; a reply decides (free iff it is the client's own hardware address), n errors = free *)
Fixpoint arp_verify (n : nat) (kfree kbusy : proc) : proc :=
  match n with
  | O => kfree
  | S m => ping (Branch kfree kbusy) (arp_verify m kfree kbusy)
  end.
Definition arp_tries : nat := N.to_nat gf_arp_tries.
Definition client_arp_tries : nat := N.to_nat gf_client_arp_tries.

(* sendMsg/sendNACK: one sendUnicast *)
Definition reply : proc := send_unicast Halt.

(* ipdb.findIP as called from handleDiscover: for each candidate: ctx.Err() != nil -> break; bound in the database ->
   next; else probe: free -> (HoldClient may fail) offer; busy -> next.  No candidate left: silent. *)
Fixpoint find_ip (cands : nat) : proc :=
  match cands with
  | O => Halt
  | S m => IfDone Halt (Branch (find_ip m) (arp_verify arp_tries (Branch Halt reply) (find_ip m)))
  end.
(* handleDiscover: dropped | existing binding: offer without probing | search *)
Definition handle_discover (cands : nat) : proc := Branch Halt (Branch (Branch Halt reply) (find_ip cands)).
(* handleRequest: dropped | NAK before probing | HoldClient failed | probe: free -> UpdateClient failed / ACK; busy -> NAK *)
Definition handle_request : proc :=
  Branch Halt (Branch reply (Branch Halt (arp_verify arp_tries (Branch Halt reply) reply))).
(* handleMsg: own hardware address / other type: return; DISCOVER: 0 or 50 ms time.Sleep first; REQUEST *)
Definition handler (cands : nat) : proc :=
  Branch Halt (Branch (Branch (handle_discover cands) (Sleep (handle_discover cands))) handle_request).

(* server.Run: open the receive socket (failure: return err); ctx := WithCancel(sx.ctx); defer cancel; go closer;
   for { Read (error: return); undecodable: continue; go handleMsg } *)
Definition server_run (h : proc) : proc :=
  Open KIpRecv
    (Push false (Spawn closer (Loop (Read (Branch (Spawn h Again) Again) (Pop Halt)))))
    Halt.

(* dclient.sendMessage's loop after `defer s.Close()`: Write (error: return), select { After(delay): continue; Done: return } *)
Definition send_loop : proc := Loop (Write (Select Again (Close Halt)) (Close Halt)).
(* dclient.sendSocket: unicast case: for i < 5 && ctx.Err() == nil { Ping ok -> unicast socket }, then / else broadcast socket *)
Definition bcast_sock (kok kfail : proc) : proc := Open KIpSend kok kfail.
Fixpoint uc_pings (n : nat) (kok kfail : proc) : proc :=
  match n with
  | O => bcast_sock kok kfail
  | S m => IfDone (bcast_sock kok kfail) (ping (Open KUcSend kok kfail) (uc_pings m kok kfail))
  end.
Definition send_message (uc : bool) : proc :=
  if uc then uc_pings client_arp_tries send_loop Halt else bcast_sock send_loop Halt.
(* dclient.catchReply: open (failure: return err); ctx := WithCancel(octx); defer cancel; go closer; read until a
   verified reply (passed / NAK) or an error *)
Definition catch_reply (kok knak kerr : proc) : proc :=
  Open KIpRecv (Push false (Spawn closer (Read (Branch (Pop kok) (Pop knak)) (Pop kerr)))) kerr.
(* dclient.advanceState: ctx := WithDeadline(dx.ctx, deadline); defer cancel; go sendMessage; catchReply *)
Definition advance (uc : bool) (kok knak kerr : proc) : proc :=
  Push true (Spawn (send_message uc) (catch_reply (Pop kok) (Pop knak) (Pop kerr))).

(* panicReset: fctx := WithTimeout(dx.ctx, 30 s); <-fctx.Done() *)
Definition panic_reset (k : proc) : proc := Push true (WaitDone (Pop k)).
(* after every state: limiter exhausted -> select on a 20 s timer (then panic) and dx.ctx (then return; repair F11);
   else return if dx.ctx is done, else next state *)
Definition client_tail : proc := Branch (IfDone Halt Again) (Select Halt Halt).
(* dclient.Run: the state loop; which state comes next is data (oracle): purge / ifconfig ok | ifconfig failed |
   discovering, selecting, rebinding (broadcast exchange) | renewing (unicast exchange) | ARP check | bound
   (hackAbsoluteSleep: select on ctx and timers; the 17 s re-poll is a stutter step) *)
Definition client_run : proc :=
  let t := client_tail in
  Loop (Branch t
       (Branch (panic_reset t)
       (Branch (advance false t t t)
       (Branch (advance true t t t)
       (Branch (ping (Branch t (panic_reset t)) t)
               (Select t t)))))).

(* ---------------------------------------------------------------------------------------------------------- *)
(* a deterministic scheduler used to evaluate the model on observed histories: internal steps first (lowest
   process first; opens and writes succeed; branches consume [bs]); when nothing can move, the next external
   event of [evs]: 0 = the newest pending timeout context expires, 1 = a packet for the highest-numbered reader,
   2 = a packet for the lowest-numbered reader, 3 = cancel the root context, 4 = the timer of the highest-numbered
   Select fires *)
Definition is_branch (p : pc) : bool := match code p with Branch _ _ => true | _ => false end.
Fixpoint first_internal (s : st) (b : bool) (ps : list pc) (i : nat) : option (st * bool) :=
  match ps with
  | [] => None
  | p :: r => match exec_opt s (CStep i false (if is_branch p then b else false)) with
              | Some s' => Some (s', is_branch p)
              | None => first_internal s b r (S i)
              end
  end.
Definition at_read (g : glob) (p : pc) : bool := match code p with Read _ _ => sock_open g p | _ => false end.
Definition at_select (g : glob) (p : pc) : bool := match code p with Select _ _ => true | _ => false end.
Fixpoint find_last (f : pc -> bool) (ps : list pc) (i : nat) (acc : option nat) : option nat :=
  match ps with [] => acc | p :: r => find_last f r (S i) (if f p then Some i else acc) end.
Fixpoint find_first (f : pc -> bool) (ps : list pc) (i : nat) : option nat :=
  match ps with [] => None | p :: r => if f p then Some i else find_first f r (S i) end.
Definition pending_timeout (g : glob) : option nat :=
  find (fun c => negb (mem c (cancelled g))) (timedc g).
Definition external (s : st) (e : nat) : st :=
  let g := gl s in
  match e with
  | 0 => match pending_timeout g with Some c => exec s (CTimeout c) | None => s end
  | 1 => match find_last (at_read g) (procs s) 0 None with Some i => exec s (CStep i true false) | None => s end
  | 2 => match find_first (at_read g) (procs s) 0 with Some i => exec s (CStep i true false) | None => s end
  | 3 => exec s CCancel
  | _ => match find_last (at_select g) (procs s) 0 None with Some i => exec s (CStep i true false) | None => s end
  end.
Fixpoint drive (fuel : nat) (s : st) (bs : list bool) (evs : list nat) : st :=
  match fuel with
  | O => s
  | S f =>
      match first_internal s (hd false bs) (procs s) 0 with
      | Some (s', used) => drive f s' (if used then tl bs else bs) evs
      | None => match evs with [] => s | e :: r => drive f (external s e) bs r end
      end
  end.

(* observed server history -> straight-line program built from the same blocks: per packet the handler performed
   [pings] Pings and sent [replies] frames *)
Fixpoint pings_then (n : nat) (k : proc) : proc := match n with O => k | S m => ping k (pings_then m k) end.
Fixpoint sends_then (n : nat) (k : proc) : proc := match n with O => k | S m => send_unicast (sends_then m k) end.
Definition obs_handler (pings replies : nat) : proc := pings_then pings (sends_then replies Halt).
Fixpoint obs_rounds (rs : list (nat * nat)) : proc :=
  match rs with
  | [] => Read Halt (Pop Halt)
  | (p, r) :: t => Read (Spawn (obs_handler p r) (obs_rounds t)) (Pop Halt)
  end.
Definition obs_server (rs : list (nat * nat)) : proc :=
  Open KIpRecv (Push false (Spawn closer (obs_rounds rs))) Halt.
Definition obs_server_events (rs : list (nat * nat)) : list nat :=
  flat_map (fun pr => 2 :: repeat 0 (fst pr)) rs ++ [3].
(* observed client life: ARP check (0, _), broadcast exchange after n unanswered Pings (1, n), unicast exchange whose
   n-th Ping was answered (2, n); then cancellation *)
Fixpoint obs_client (xs : list (nat * nat)) : proc :=
  match xs with
  | [] => Halt
  | (0, _) :: t => ping Halt (obs_client t)
  | (k, n) :: t => Push true (Spawn (pings_then n (match k with 1 => bcast_sock send_loop Halt | _ => Open KUcSend send_loop Halt end))
                     (catch_reply (Pop (obs_client t)) (Pop Halt) (Pop Halt)))
  end.
Definition obs_client_events (xs : list (nat * nat)) : list nat :=
  flat_map (fun x => match fst x with
                     | 0 => [0]
                     | 1 => repeat 0 (snd x) ++ [1]
                     | _ => repeat 0 (pred (snd x)) ++ [1; 1]
                     end) xs ++ [3].

Definition kind_eqb (a b : kind) : bool :=
  match a, b with
  | KIpRecv, KIpRecv | KArpRecv, KArpRecv | KArpSend, KArpSend | KUcSend, KUcSend | KIpSend, KIpSend => true
  | _, _ => false
  end.
Definition count_kind (k : kind) (s : st) : N := N.of_nat (length (filter (kind_eqb k) (olog (gl s)))).
Definition summary (s : st) : list N :=
  [N.of_nat (opens s); N.of_nat (closes s); if terminated s then 1%N else 0%N; if dbl (gl s) then 1%N else 0%N;
   N.of_nat (length (procs s))].
(* what the harness can observe: opens, closes, everything returned, no double close, opens per kind *)
Definition observable (s : st) : list N :=
  [N.of_nat (opens s); N.of_nat (closes s); if terminated s then 1%N else 0%N; if dbl (gl s) then 1%N else 0%N;
   count_kind KIpRecv s; count_kind KArpRecv s; count_kind KArpSend s; count_kind KUcSend s; count_kind KIpSend s].
