(* Model of the client automaton: lib/client/dclient/{dclient,dhcpstates,sysstates}.go, the retransmission
   loop of netio.go, ResumeClient, and lib/client/{mclient,filter}.go.  The automaton is driven by the
   outcomes of its blocking operations (exchange: accepted reply / NAK / deadline / cancelled; ARP check;
   interface configuration; sleeping; link-up), which the theorems quantify over universally and the
   correspondence run takes from a script. Time is Z nanoseconds. *)
From PSA Require Import gen.GoFacts model.Bytes.
Open Scope Z_scope.

Inductive cphase := PPurge | PDiscover | PSelect | PArp | PIfconfig | PBound | PRenew | PRebind.

(* what the client keeps of an accepted reply (lastMsg / lastOpts) *)
Record lease_info := {
  li_yiaddr : N; li_sid : N; li_mask : option bytes; li_routers : list N; li_dns : list N; li_domain : bytes; li_mtu : N;
  li_lease : Z; li_t1 : Z; li_t2 : Z }.          (* durations in ns *)

Definition no_lease : lease_info :=
  {| li_yiaddr := 0%N; li_sid := 0%N; li_mask := None; li_routers := []; li_dns := []; li_domain := []; li_mtu := 0%N;
     li_lease := 0; li_t1 := 0; li_t2 := 0 |}.

(* libif.Ifconfig as handed to SetIface and to the hook *)
Record netconf := { nc_ip : N; nc_mask : bytes; nc_router : option N; nc_mtu : N; nc_dns : list N; nc_domain : bytes; nc_lease : Z }.

(* net.IP.DefaultMask: class A below 128, class B below 192, class C for everything else *)
Definition default_mask (ip : N) : bytes :=
  let a := (ip / 16777216)%N in
  if (a <? 128)%N then [255; 0; 0; 0]%N else if (a <? 192)%N then [255; 255; 0; 0]%N else [255; 255; 255; 0]%N.

(* IPMask.Size() returns bits = 0 for a nil or non-canonical mask (ones must be contiguous from the top) *)
Definition mask_u32 (m : bytes) : N := match m with [a; b; c; d] => be32 a b c d | _ => 0%N end.
Definition canonical_mask (m : bytes) : bool :=
  match m with
  | [_; _; _; _] => let v := mask_u32 m in let inv := (4294967295 - v)%N in (N.land inv (inv + 1) =? 0)%N
  | _ => false
  end.

(* buildNetconfig + filterNetconfig (router withheld when default-route configuration is disabled) *)
Definition build_netconf (croute : bool) (l : lease_info) : netconf :=
  {| nc_ip := li_yiaddr l;
     nc_mask := match li_mask l with Some m => if canonical_mask m then m else default_mask (li_yiaddr l) | None => default_mask (li_yiaddr l) end;
     nc_router := if croute then Some (hd 0%N (li_routers l)) else None;
     nc_mtu := li_mtu l; nc_dns := li_dns l; nc_domain := li_domain l; nc_lease := li_lease l |}.

Definition ns_s : Z := 1000000000.
Definition discover_deadline : Z := Z.of_N gf_discover_deadline_ns.
Definition selecting_deadline : Z := Z.of_N gf_selecting_deadline_ns.
Definition resume_deadline : Z := Z.of_N gf_resume_deadline_ns.
Definition min_t1 : Z := Z.of_N gf_min_t1_ns.
Definition panic_reset : Z := Z.of_N gf_panic_reset_ns.
Definition arp_wait : Z := Z.of_N gf_arp_timeout_ns.

(* runStateBound: time.Duration(float64(lease) * 0.5) and time.Duration(float64(lease) * 0.875).
   round53 n is float64(n) for n >= 0: n rounded to 53 significant bits, nearest, ties to even (a 63-bit duration is far
   from the exponent limits).  Multiplying by 0.5 is exact; the product with 0.875 = 7/8 is the exact product rounded
   again (scaling by a power of two does not touch the significand); the conversion back truncates.  Below 2^53 ns
   (104 days) nothing is rounded, and a whole number of seconds below 2^32 is always representable, so for the leases a
   DHCP server can express only T2 of leases above about 20 years is affected (by less than a microsecond).
   Server-supplied T1/T2 are used only if 60 s < T1 < T2 < lease. *)
Definition round53 (n : Z) : Z :=
  let k := Z.log2 n - 52 in
  if k <=? 0 then n
  else let p := 2 ^ k in let q := n / p in let r := n mod p in let h := p / 2 in
       if r <? h then q * p else if h <? r then (q + 1) * p else if Z.even q then q * p else (q + 1) * p.
Definition half (lease : Z) : Z := round53 lease / 2.
Definition seven_eighths (lease : Z) : Z := round53 (round53 lease * 7) / 8.
Definition use_server_times (l : lease_info) : bool := (min_t1 <? li_t1 l) && (li_t1 l <? li_t2 l) && (li_t2 l <? li_lease l).
Definition deadlines (now : Z) (l : lease_info) : Z * Z * Z :=
  if use_server_times l then (now + li_t1 l, now + li_t2 l, now + li_lease l)
  else (now + half (li_lease l), now + seven_eighths (li_lease l), now + li_lease l).

Record cst := { c_phase : cphase; c_now : Z; c_last : lease_info; c_t1 : Z; c_t2 : Z; c_tx : Z; c_tokens : Z (* limiter, in ns of credit *) }.

(* observable actions *)
Inductive action :=
| AUnconfigure (t : Z) | AUp (t : Z) | ASetIface (t : Z) (c : netconf) (ok : bool)
| AExchange (t : Z) (kind : N)      (* an exchange (advanceState) begins: 1 discover 2 selecting 3 renewing 4 rebinding *)
| ACrash (t : Z) | AReturn (t : Z).

(* outcomes of blocking operations *)
Inductive xout := XAccept (dt : Z) (l : lease_info) | XNak (dt : Z) | XTimeout | XCancel (dt : Z).
Inductive aout := ANone | AOwn (dt : Z) | AForeign (dt : Z) | ACancelled (dt : Z).

Inductive cevent :=
| EExchange (pre : Z) (o : xout)   (* discover / selecting / renewing / rebinding; pre = time before the first transmission (ARP look-up of the server when renewing) *)
| EArp (o : aout)             (* ARP check of the acknowledged address *)
| ESetIface (ok : bool) (cancel_at : option Z)   (* configure; on failure the 30 s wait may be cut by cancellation *)
| ESleep (cancel_at : option Z) (* bound: sleep until T1, possibly cancelled *)
| EPurge.                      (* purge state has no blocking operation *)

(* rate.Limiter(1, 10): credit grows 1 s per second up to 10 s; each Run-loop iteration costs 1 s *)
Definition limiter_burst : Z := 10 * ns_s.
Definition refill (tok dt : Z) : Z := Z.min limiter_burst (tok + dt).

Definition with_phase (s : cst) (p : cphase) (now : Z) : cst :=
  {| c_phase := p; c_now := now; c_last := c_last s; c_t1 := c_t1 s; c_t2 := c_t2 s; c_tx := c_tx s; c_tokens := c_tokens s |}.
Definition with_last (s : cst) (l : lease_info) : cst :=
  {| c_phase := c_phase s; c_now := c_now s; c_last := l; c_t1 := c_t1 s; c_t2 := c_t2 s; c_tx := c_tx s; c_tokens := c_tokens s |}.

(* the first transmission of an exchange happens pre after its start - unless the exchange ended before that
   (sendMessage tests its context after the look-up: repair F10) *)
Definition sent (t pre dur : Z) (kind : N) : list action := if pre <? dur then [AExchange (t + pre) kind] else [].

(* the blocking part of one state; returns the state after it and what was observable *)
Definition phase_step (croute : bool) (s : cst) (e : cevent) : cst * list action :=
  let t := c_now s in
  match c_phase s, e with
  | PPurge, _ => (with_phase s PDiscover t, [AUnconfigure t; AUp t])
  | PDiscover, EExchange pre o =>
    match o with
    | XAccept dt l => (with_last (with_phase s PSelect (t + dt)) l, sent t pre dt 1)
    | XNak dt => (with_phase s PDiscover (t + discover_deadline), sent t pre discover_deadline 1)   (* a NAK is not an OFFER: ignored, the exchange runs out *)
    | XTimeout => (with_phase s PDiscover (t + discover_deadline), sent t pre discover_deadline 1)
    | XCancel dt => (with_phase s PDiscover (t + dt), sent t pre dt 1)
    end
  | PSelect, EExchange pre o =>
    match o with
    | XAccept dt l => (with_last (with_phase s PArp (t + dt)) l, sent t pre dt 2)
    | XNak dt => (with_phase s PDiscover (t + dt), sent t pre dt 2)
    | XTimeout => (with_phase s PDiscover (t + selecting_deadline), sent t pre selecting_deadline 2)
    | XCancel dt => (with_phase s PDiscover (t + dt), sent t pre dt 2)
    end
  | PArp, EArp o =>
    match o with
    | ANone => (with_phase s PIfconfig (t + arp_wait), [])
    | AOwn dt => (with_phase s PIfconfig (t + dt), [])
    | ACancelled dt => (with_phase s PIfconfig (t + dt), [])
    | AForeign dt => (with_phase s PPurge (t + dt + panic_reset), [AUnconfigure (t + dt)])
    end
  | PIfconfig, ESetIface ok cancel_at =>
    let nc := build_netconf croute (c_last s) in
    if ok then (with_phase s PBound t, [ASetIface t nc true])
    else (with_phase s PPurge (match cancel_at with Some c => t + c | None => t + panic_reset end), [ASetIface t nc false; AUnconfigure t])
  | PBound, ESleep cancel_at =>
    let '(t1, t2, tx) := deadlines t (c_last s) in
    let wake := match cancel_at with Some c => Z.min (t + c) (Z.max t t1) | None => Z.max t t1 end in
    ({| c_phase := PRenew; c_now := wake; c_last := c_last s; c_t1 := t1; c_t2 := t2; c_tx := tx; c_tokens := c_tokens s |}, [])
  | PRenew, EExchange pre o =>
    match o with
    | XAccept dt l => (with_last (with_phase s PArp (t + dt)) l, sent t pre dt 3)
    | XNak dt => (with_phase s PPurge (t + dt), sent t pre dt 3)
    | XTimeout => (with_phase s PRebind (Z.max t (c_t2 s)), sent t pre (Z.max t (c_t2 s) - t) 3)
    | XCancel dt => (with_phase s PRebind (t + dt), sent t pre dt 3)
    end
  | PRebind, EExchange pre o =>
    match o with
    | XAccept dt l => (with_last (with_phase s PArp (t + dt)) l, sent t pre dt 4)
    | XNak dt => (with_phase s PPurge (t + dt), sent t pre dt 4)
    | XTimeout => (with_phase s PPurge (Z.max t (c_tx s)), sent t pre (Z.max t (c_tx s) - t) 4)
    | XCancel dt => (with_phase s PPurge (t + dt), sent t pre dt 4)
    end
  | _, _ => (s, [])     (* event does not fit the state: ignored (scripts never do this) *)
  end.

Inductive rstatus := Running | Returned | Crashed.

(* one iteration of dclient.Run: the state function, then the limiter.  A cancelled context makes Run return - also from
   the 20 s pause before the limiter's fatal exit (repair F11: the pause watches the context). *)
Definition run_iter (croute : bool) (s : cst) (e : cevent) (cancelled : bool) : cst * list action * rstatus :=
  let (s1, acts) := phase_step croute s e in
  let tok := refill (c_tokens s) (c_now s1 - c_now s) in
  if tok <? ns_s then
    if cancelled then
      ({| c_phase := c_phase s1; c_now := c_now s1; c_last := c_last s1; c_t1 := c_t1 s1; c_t2 := c_t2 s1; c_tx := c_tx s1; c_tokens := tok |},
       acts ++ [AReturn (c_now s1)], Returned)
    else
    ({| c_phase := c_phase s1; c_now := c_now s1 + 20 * ns_s; c_last := c_last s1; c_t1 := c_t1 s1; c_t2 := c_t2 s1; c_tx := c_tx s1; c_tokens := tok |},
     acts ++ [ACrash (c_now s1 + 20 * ns_s)], Crashed)
  else
    let s2 := {| c_phase := c_phase s1; c_now := c_now s1; c_last := c_last s1; c_t1 := c_t1 s1; c_t2 := c_t2 s1; c_tx := c_tx s1; c_tokens := tok - ns_s |} in
    if cancelled then (s2, acts ++ [AReturn (c_now s1)], Returned) else (s2, acts, Running).

(* mclient: after a link-up the client resumes: a held lease is re-validated by rebinding with 5 s deadlines *)
Definition resume (s : cst) : cst :=
  match c_phase s with
  | PBound | PRenew | PRebind =>
    let d := c_now s + resume_deadline in
    {| c_phase := PRebind; c_now := c_now s; c_last := c_last s; c_t1 := d; c_t2 := d; c_tx := d; c_tokens := c_tokens s |}
  | _ => with_phase s PPurge (c_now s)
  end.

Definition initial_client : cst :=
  {| c_phase := PPurge; c_now := 0; c_last := no_lease; c_t1 := 0; c_t2 := 0; c_tx := 0; c_tokens := limiter_burst |}.

(* a script: per Run-loop iteration the outcome of its blocking operation and whether the context was cancelled
   (link-up) during it *)
Fixpoint run_script (croute : bool) (s : cst) (script : list (cevent * bool)) : list action :=
  match script with
  | [] => []
  | (e, cancelled) :: rest =>
    let '(s', acts, st) := run_iter croute s e cancelled in
    match st with
    | Running => acts ++ run_script croute s' rest
    | Returned => acts ++ run_script croute (resume s') rest
    | Crashed => acts
    end
  end.

(* ---- retransmission (sendMessage) ---- *)
Definition retx_first : Z := Z.of_N gf_retx_first_ns.
Definition retx_barrier : Z := Z.of_N gf_retx_barrier_ns.
(* delay += rand.Int63() % (1 + delay) while delay < barrier *)
Definition next_delay (d r : Z) : Z := if d <? retx_barrier then d + r mod (1 + d) else d.
Fixpoint delays (d : Z) (rs : list Z) : list Z :=
  match rs with [] => [] | r :: rest => let d' := next_delay d r in d' :: delays d' rest end.
