(* Model of lib/server/{run,netio,utils}.go and lib/server/replies/*.go over the reference lease
   table of C11 (spec/SpecIpdb.v).  Handlers are sequences of atomic database steps; this file gives
   the pure parts (identity, classification, reply assembly, ARP probing) and the acceptance of
   observed sequential rounds.  Reflects the repaired code (DESIGN.md section 6: F2, F3, F7, F8, F9, F12, F13). *)
From PSA Require Import gen.GoFacts model.Bytes model.Checksum model.Layer model.Dhcp model.Clients model.Ipdb
  model.IpdbCheck spec.SpecTable spec.SpecIpdb.
Open Scope N_scope.

Definition bcast_ip : N := 4294967295.
Definition bcast_mac : bytes := [255; 255; 255; 255; 255; 255].

Record scfg := {
  c_self_ip : N; c_self_mac : bytes;
  c_lease : Z;                                  (* configured lease duration, ns *)
  c_db : ipdb;                                  (* ranges (store unused) *)
  c_statics : list (bytes * N);                 (* hardware address -> reserved address *)
  c_opts : list (bytes * list dhcp_opt);        (* hardware address -> option list sent (dhcpOptions) *)
  c_default_opts : list dhcp_opt }.

Definition hold_ns : Z := Z.of_N gf_offer_hold_ns.
Definition req_hold_ns : Z := Z.of_N gf_request_hold_ns.
Definition arp_timeout : Z := Z.of_N gf_arp_timeout_ns.
Definition arp_tries : Z := Z.of_N gf_arp_tries.

Fixpoint assoc {A} (k : bytes) (l : list (bytes * A)) : option A :=
  match l with [] => None | (k', v) :: r => if bytes_eqb k k' then Some v else assoc k r end.

Definition reserved_ip (c : scfg) (mac : bytes) : option N := assoc mac (c_statics c).
Definition opts_for (c : scfg) (mac : bytes) : list dhcp_opt :=
  match assoc mac (c_opts c) with Some o => o | None => c_default_opts c end.

(* duidFromHwAddr / getDuid *)
Definition sduid (mac : bytes) : bytes := [0; 3; 0; 0] ++ mac.
Definition internal_prefix (cid : bytes) : bool :=
  match cid with 0 :: 3 :: 0 :: 0 :: _ => true | _ => false end.
Definition get_duid (c : scfg) (mac cid : bytes) : bytes :=
  match reserved_ip c mac with
  | Some _ => sduid mac
  | None => if (len cid <? 4) || internal_prefix cid then sduid mac else cid
  end.

(* ---- replies ---- *)
Definition reply_msg (c : scfg) (typ : N) (xid flags yiaddr : N) (mac : bytes) (extra : list dhcp_opt) : dhcp_msg :=
  {| d_op := gf_dhcpmsg_OpReply; d_htype := gf_dhcpmsg_HtypeETHER; d_hops := 0; d_xid := xid; d_secs := 0; d_flags := flags;
     d_ciaddr := 0; d_yiaddr := yiaddr; d_siaddr := 0; d_giaddr := 0; d_chaddr := mac;
     d_sname := zeros 64; d_file := zeros 128; d_cookie := gf_dhcpmsg_DHCPCookie;
     d_options := (gf_dhcpmsg_OptMessageType, [typ]) :: (gf_dhcpmsg_OptServerIdentifier, put32 (c_self_ip c)) :: extra |}.

Definition assemble_udp (src dst : N) (payload : bytes) : res bytes :=
  ipv4_assemble {| ip_id := 0; ip_flags := 0; ip_ttl := gf_reply_ttl; ip_proto := gf_reply_proto; ip_csum := 0;
                   ip_src := src; ip_dst := dst;
                   ip_data := udp_assemble {| udp_sport := gf_reply_sport; udp_dport := gf_reply_dport; udp_data := payload |} |}.

Definition bflag (flags : N) : bool := negb (N.land flags gf_dhcpmsg_FlagBroadcast =? 0).

(* AssembleOffer / AssembleACK + sendMsg: (link-layer destination, packet) *)
Definition reply_lease (c : scfg) (typ : N) (m : dhcp_msg) (ip : N) : res (bytes * bytes) :=
  let dst := if bflag (d_flags m) then bcast_ip else ip in
  do p <- assemble_udp (c_self_ip c) dst
            (dhcp_assemble (reply_msg c typ (d_xid m) (d_flags m) ip (d_chaddr m) (opts_for c (d_chaddr m))));
  Ok (if bflag (d_flags m) then bcast_mac else d_chaddr m, p).

Definition reply_nak (c : scfg) (m : dhcp_msg) : res (bytes * bytes) :=
  do p <- assemble_udp (c_self_ip c) bcast_ip (dhcp_assemble (reply_msg c gf_dhcpmsg_MsgTypeNack (d_xid m) 0 0 (d_chaddr m) []));
  Ok (d_chaddr m, p).

(* ---- ARP probing (arpping.Ping x arp_tries, utils.arpVerify) ---- *)
Record arp_resp := { ar_ip : N; ar_mac : bytes; ar_delay : Z }.

Fixpoint find_resp (ip : N) (l : list arp_resp) : option arp_resp :=
  match l with [] => None | r :: t => if ar_ip r =? ip then Some r else find_resp ip t end.

(* (free?, duration): the first answer whose sender address is the target decides, if it arrives
   inside the arp_tries windows of arp_timeout each; silence means free *)
Definition probe_outcome (arp : list arp_resp) (requester : bytes) (ip : N) : bool * Z :=
  match find_resp ip arp with
  | Some r => if (ar_delay r <? arp_tries * arp_timeout)%Z then (bytes_eqb (ar_mac r) requester, ar_delay r)
              else (true, (arp_tries * arp_timeout)%Z)
  | None => (true, (arp_tries * arp_timeout)%Z)
  end.

(* ---- classification of a REQUEST (netio.go handleRequest) ---- *)
Definition classify_request (c : scfg) (dst src : N) (o : decoded_options) : option N :=
  let bc := dst =? bcast_ip in
  match o_sid o, o_reqip o with
  | None, Some r => if bc then Some r else None
  | Some s, Some r => if bc && (s =? c_self_ip c) then Some r else None
  | None, None => if (dst =? c_self_ip c) || bc then Some src else None
  | Some _, None => None
  end.

(* ---- the receive loop's filter (run.go): what reaches handleMsg ---- *)
Definition decode_chain (pkt : bytes) : option (N * N * dhcp_msg) :=
  match decode_ipv4 pkt with
  | Ok v4 =>
    if negb (ip_proto v4 =? gf_layer_ProtoUDP) then None else
    match decode_udp (ip_data v4) with
    | Ok u => match dhcp_decode (udp_data u) with
              | Ok m => if d_op m =? gf_dhcpmsg_OpRequest then Some (ip_src v4, ip_dst v4, m) else None
              | _ => None end
    | _ => None end
  | _ => None
  end.

Inductive mkind := KDiscover | KRequest | KIgnored.

Definition msg_kind (c : scfg) (m : dhcp_msg) (o : decoded_options) : mkind :=
  if bytes_eqb (c_self_mac c) (d_chaddr m) then KIgnored
  else if o_msgtype o =? gf_dhcpmsg_MsgTypeDiscover then KDiscover
  else if o_msgtype o =? gf_dhcpmsg_MsgTypeRequest then KRequest
  else KIgnored.

(* ---- observations ---- *)
Record out_frame := { of_t : Z; of_eth : bytes; of_pkt : bytes }.
Record snap_entry := { sn_ip : N; sn_duid : bytes; sn_until : Z; sn_perm : bool }.
Record round := { r_t : Z; r_pkt : bytes; r_arp : list arp_resp; r_outs : list out_frame; r_tq : Z;
                  r_snap : list snap_entry; r_has_snap : bool }.

Definition frame_eqb (f : out_frame) (e : res (bytes * bytes)) : bool :=
  match e with Ok (eth, p) => bytes_eqb (of_eth f) eth && bytes_eqb (of_pkt f) p | _ => false end.

(* the yiaddr of an observed reply (oracle for the random choice of FindIP) *)
Definition observed_yiaddr (f : out_frame) : option N :=
  match decode_ipv4 (of_pkt f) with
  | Ok v4 => match decode_udp (ip_data v4) with
             | Ok u => match dhcp_decode (udp_data u) with Ok m => Some (d_yiaddr m) | _ => None end
             | _ => None end
  | _ => None
  end.

Definition t_eligible (t : table) (tl : Z) (free : N -> bool) (a : N) : bool :=
  is_none (find_live tl (KIp a) t 0) && uip_valid a && free a.

(* validity of the outcome of the atomic search-and-hold step (OfferIP) begun at ts:
   r = None (no offer) or Some (y, tl) with tl the instant y was looked up *)
Definition offer_valid (x : ipdb) (t : table) (ts : Z) (sugg : option N) (duid : bytes) (free : N -> bool)
                       (r : option (N * Z)) : bool :=
  match bound_ip ts duid t with
  | Some a => match r with Some (y, _) => y =? a | None => false end
  | None =>
    if dynamic_disabled x then is_none r else
    let n := match to_uip x sugg with Some n => n | None => 0 end in
    let sugg_first := is_none (find_live ts (KIp n) t 0) && in_dyn x n && t_eligible t ts free n in
    match r with
    | Some (y, tl) => if sugg_first then (y =? n) else in_dyn x y && (ts <=? tl)%Z && t_eligible t tl free y
    | None => negb sugg_first && forallb (fun a => negb (t_eligible t ts free a)) (dyn_addresses x)
    end
  end.

(* one sequential round: returns the table afterwards, or an error code *)
Inductive racc := RAcc (t : table) | RRej (code : N).

Definition probe_cost (arp : list arp_resp) (mac : bytes) (ip : N) : Z := snd (probe_outcome arp mac ip).
Definition probe_free (arp : list arp_resp) (mac : bytes) (ip : N) : bool := fst (probe_outcome arp mac ip).

(* "each probe ends within a bounded time": the reply to a message that arrived at r_t leaves not later than the handler's pause
   plus one probe for every address of the dynamic range and two more (the suggestion, the verification of a REQUEST) *)
Definition reply_deadline (c : scfg) (r : round) : Z :=
  (r_t r + 50000000 + (Z.of_nat (length (dyn_addresses (c_db c))) + 2) * arp_tries * arp_timeout)%Z.

Definition accept_discover (c : scfg) (t : table) (r : round) (dst : N) (m : dhcp_msg) (o : decoded_options) : racc :=
  let duid := get_duid c (d_chaddr m) (o_cid o) in
  let free := probe_free (r_arp r) (d_chaddr m) in
  if negb (dst =? bcast_ip) || negb (is_none (o_sid o)) then
    match r_outs r with [] => RAcc t | _ => RRej 10 end
  else
  match r_outs r with
  | [] =>
    (* silence: legitimate only if the step offers nothing, at either reply delay *)
    if offer_valid (c_db c) t (r_t r) (o_reqip o) duid free None
       || offer_valid (c_db c) t (r_t r + 50000000)%Z (o_reqip o) duid free None then RAcc t else RRej 11
  | [f] =>
    match observed_yiaddr f with
    | None => RRej 12
    | Some y =>
      if negb (frame_eqb f (reply_lease c gf_dhcpmsg_MsgTypeOffer m y)) then RRej 13 else
      if (of_t f <? r_t r)%Z || (reply_deadline c r <? of_t f)%Z then RRej 14 else
      let own := bound_ip (r_t r) duid t in
      let tl := match own with Some _ => of_t f | None => (of_t f - probe_cost (r_arp r) (d_chaddr m) y)%Z end in
      (* the search-and-hold step begins at the arrival or, after the handler's 50 ms pause, not later than the reply leaves *)
      if offer_valid (c_db c) t (r_t r) (o_reqip o) duid free (Some (y, tl))
         || ((r_t r + 50000000 <=? of_t f)%Z && offer_valid (c_db c) t (r_t r + 50000000)%Z (o_reqip o) duid free (Some (y, tl))) then
        let (ok, t') := t_hold_client (c_db c) (of_t f) (Some y) duid hold_ns t in
        if ok then RAcc t' else RRej 15
      else RRej 16
    end
  | _ => RRej 17
  end.

Definition accept_request (c : scfg) (t : table) (r : round) (src dst : N) (m : dhcp_msg) (o : decoded_options) : racc :=
  let duid := get_duid c (d_chaddr m) (o_cid o) in
  let silent := match r_outs r with [] => RAcc t | _ => RRej 20 end in
  match classify_request c dst src o with
  | None => silent
  | Some desired =>
    if negb (in_managed_range (c_db c) (Some desired)) then silent else
    let nak := match r_outs r with
               | [f] => if frame_eqb f (reply_nak c m) && (r_t r <=? of_t f)%Z && (of_t f <=? reply_deadline c r)%Z then RAcc t else RRej 21
               | _ => RRej 22 end in
    match bound_ip (r_t r) duid t with
    | None => nak
    | Some lease =>
      if negb (lease =? desired) then nak else
      let (okh, t1) := t_hold_client (c_db c) (r_t r) (Some lease) duid req_hold_ns t in
      if negb okh then RRej 23 else
      let (free, cost) := probe_outcome (r_arp r) (d_chaddr m) lease in
      if negb free then
        match r_outs r with
        | [f] => if frame_eqb f (reply_nak c m) && (r_t r <=? of_t f)%Z && (of_t f <=? reply_deadline c r)%Z then RAcc t1 else RRej 24
        | _ => RRej 25 end
      else
      match r_outs r with
      | [f] =>
        if negb (frame_eqb f (reply_lease c gf_dhcpmsg_MsgTypeAck m lease)) then RRej 26 else
        if (of_t f <? r_t r)%Z || (reply_deadline c r <? of_t f)%Z then RRej 27 else
        let (ok, t2) := t_update_client (c_db c) (of_t f) (Some lease) duid (c_lease c) t1 in
        if ok then RAcc t2 else RRej 28
      | _ => RRej 29
      end
    end
  end.

Definition snap_of (now : Z) (t : table) : list snap_entry :=
  map (fun e => {| sn_ip := e_ip e; sn_duid := e_duid e; sn_until := if e_perm e then 0%Z else e_until e; sn_perm := e_perm e |})
      (filter (live now) t).

Definition snap_entry_eqb (a b : snap_entry) : bool :=
  (sn_ip a =? sn_ip b) && bytes_eqb (sn_duid a) (sn_duid b) && Bool.eqb (sn_perm a) (sn_perm b) &&
  (sn_perm a || (sn_until a =? sn_until b)%Z).

(* observed snapshot (sorted by address) must be a permutation of the model's live view: compare as
   multisets through mutual inclusion, both sides duplicate-free per address by C11 *)
Definition snap_match (obs mine : list snap_entry) : bool :=
  (length obs =? length mine)%nat &&
  forallb (fun a => existsb (snap_entry_eqb a) mine) obs && forallb (fun a => existsb (snap_entry_eqb a) obs) mine.

Definition accept_round (c : scfg) (t : table) (r : round) : racc :=
  let res :=
    match decode_chain (r_pkt r) with
    | None => match r_outs r with [] => RAcc t | _ => RRej 1 end
    | Some (src, dst, m) =>
      let o := decode_options (d_options m) in
      match msg_kind c m o with
      | KIgnored => match r_outs r with [] => RAcc t | _ => RRej 2 end
      | KDiscover => accept_discover c t r dst m o
      | KRequest => accept_request c t r src dst m o
      end
    end in
  match res with
  | RAcc t' => if r_has_snap r then (if snap_match (r_snap r) (snap_of (r_tq r) t') then RAcc t' else RRej 3) else RAcc t'
  | rej => rej
  end.

(* a history: per round 0 = accepted, else the rejection code; after a rejection the model keeps its table *)
Fixpoint accept_history (c : scfg) (t : table) (h : list round) : list N :=
  match h with
  | [] => []
  | r :: rest => match accept_round c t r with
                 | RAcc t' => 0 :: accept_history c t' rest
                 | RRej code => code :: accept_history c t rest
                 end
  end.

(* the table the server starts from: permanent bindings for the reservations and for itself *)
Definition initial_table (c : scfg) : table :=
  fold_left (fun t (p : bytes * N) => snd (t_add_permanent (c_db c) 0%Z (Some (snd p)) (sduid (fst p)) t))
            (c_statics c ++ [(c_self_mac c, c_self_ip c)]) [].
