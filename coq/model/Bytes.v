(* Basic byte-level vocabulary shared by all models.  Stdlib only, no axioms. *)
From Coq Require Export List NArith ZArith Bool Lia.
Export ListNotations.
Open Scope N_scope.

Definition byte := N.
Definition bytes := list N.

Definition wf_byte (x : N) : bool := x <? 256.
Definition wf_bytes (b : bytes) : bool := forallb wf_byte b.

(* Outcome of a Go function that can return an error or panic at run time. *)
Inductive res (A : Type) : Type :=
| Ok (a : A)
| Err          (* the Go function returned a non-nil error *)
| Panic.       (* a run-time panic (index out of range, slice bounds) *)
Arguments Ok {A} a.
Arguments Err {A}.
Arguments Panic {A}.

Definition bind {A B} (r : res A) (f : A -> res B) : res B :=
  match r with Ok a => f a | Err => Err | Panic => Panic end.
Notation "'do' x <- r ; k" := (bind r (fun x => k)) (at level 200, x ident, r at level 100, k at level 200).

Definition is_panic {A} (r : res A) : bool := match r with Panic => true | _ => false end.
Definition is_ok {A} (r : res A) : bool := match r with Ok _ => true | _ => false end.

Definition len (b : bytes) : N := N.of_nat (length b).

(* b[i] *)
Definition idx (b : bytes) (i : N) : res N :=
  match nth_error b (N.to_nat i) with Some x => Ok x | None => Panic end.

(* b[i:j], panics unless i <= j <= len b (cap = len for our purposes) *)
Definition slice (b : bytes) (i j : N) : res bytes :=
  if (i <=? j) && (j <=? len b) then Ok (firstn (N.to_nat (j - i)) (skipn (N.to_nat i) b)) else Panic.

(* b[i:] *)
Definition slice_from (b : bytes) (i : N) : res bytes :=
  if i <=? len b then Ok (skipn (N.to_nat i) b) else Panic.

Definition be16 (hi lo : N) : N := hi * 256 + lo.
Definition be32 (a b c d : N) : N := ((a * 256 + b) * 256 + c) * 256 + d.
Definition put16 (v : N) : bytes := [v / 256 mod 256; v mod 256].
Definition put32 (v : N) : bytes := [v / 16777216 mod 256; v / 65536 mod 256; v / 256 mod 256; v mod 256].

(* binary.BigEndian.Uint16(b[i:]) : panics when fewer than 2 bytes remain *)
Definition get16 (b : bytes) (i : N) : res N :=
  do hi <- idx b i; do lo <- idx b (i + 1); Ok (be16 hi lo).
Definition get32 (b : bytes) (i : N) : res N :=
  do a <- idx b i; do b1 <- idx b (i + 1); do c <- idx b (i + 2); do d <- idx b (i + 3); Ok (be32 a b1 c d).

(* copy(dst[at:], src) on a buffer: overwrite, truncated at the end of dst *)
Fixpoint overwrite (dst : bytes) (at_ : nat) (src : bytes) : bytes :=
  match dst, at_ with
  | [], _ => []
  | d :: ds, S n => d :: overwrite ds n src
  | d :: ds, O => match src with [] => d :: ds | s :: ss => s :: overwrite ds O ss end
  end.

Definition zeros (n : nat) : bytes := repeat 0 n.

Fixpoint bytes_eqb (a b : bytes) : bool :=
  match a, b with
  | [], [] => true
  | x :: a', y :: b' => (x =? y) && bytes_eqb a' b'
  | _, _ => false
  end.

Definition u8 (x : N) := x mod 256.
Definition u16 (x : N) := x mod 65536.
Definition u32 (x : N) := x mod 4294967296.
