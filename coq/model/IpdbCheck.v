(* Executable acceptance of observed lease-database histories (used by the correspondence check).
   Deterministic operations are re-computed with the model of ipdb.go; for FindIP, whose choice among
   eligible addresses is random, the observed answer is validated instead of predicted. *)
From PSA Require Import model.Bytes model.Clients model.Ipdb.
Open Scope N_scope.

Definition opt_eqb (a b : option N) : bool :=
  match a, b with Some x, Some y => x =? y | None, None => true | _, _ => false end.

Definition is_none {A} (o : option A) : bool := match o with None => true | Some _ => false end.

(* unbound at instant tl, not a .0/.255 address, conflict probe free *)
Definition eligible_b (s : store) (tl : Z) (free : N -> bool) (a : N) : bool :=
  is_none (fst (fst (lookup tl a [] s))) && uip_valid a && free a.

Fixpoint nrange (from : N) (count : nat) : list N :=
  match count with O => [] | S c => from :: nrange (from + 1) c end.

Definition dyn_addresses (x : ipdb) : list N :=
  if dyn_to x <? dyn_from x then [] else nrange (dyn_from x) (N.to_nat (dyn_to x - dyn_from x + 1)).

Definition in_dyn (x : ipdb) (a : N) : bool := (dyn_from x <=? a) && (a <=? dyn_to x).

Definition find_ip_valid (x : ipdb) (now tl : Z) (sugg : option N) (duid : bytes) (free : N -> bool) (r : option N) : bool :=
  let n := match to_uip x sugg with Some n => n | None => 0 end in
  let '(oip, oduid, s1) := lookup now n duid (st x) in
  match oduid with
  | Some p => match nth_error (heap s1) p with Some e => opt_eqb r (Some (e_ip e)) | None => false end
  | None =>
    if dynamic_disabled x then is_none r else
    let sugg_first := is_none oip && in_dyn x n && eligible_b s1 now free n in
    match r with
    | Some a => if sugg_first then a =? n else in_dyn x a && eligible_b s1 tl free a
    | None => negb sugg_first && forallb (fun a => negb (eligible_b s1 now free a)) (dyn_addresses x)
    end
  end.

(* ---- observed histories ---- *)
Inductive hop :=
| HUpdate (ip : option N) (duid : bytes) (ttl : Z)
| HLookup (duid : bytes)
| HAddPerm (ip : option N) (duid : bytes)
| HFind (sugg : option N) (duid : bytes) (busy : list N) (res : option N) (tl tend : Z)   (* observed result, its lookup time, end time *)
| HHold (ip : option N) (duid : bytes) (ttl : Z)
| HOffer (sugg : option N) (duid : bytes) (busy : list N) (res : option N) (tl tend : Z) (ttl : Z)
| HAdvance (dt : Z)
| HInRange (ip : option N).

(* result encoding: [b] for booleans, [] / [ip] for addresses, [valid] for searches *)
Definition hstep (x : ipdb) (now : Z) (op : hop) : list N * ipdb * Z :=
  match op with
  | HUpdate ip d ttl => let (ok, x') := update_client now ip d ttl x in ([if ok then 1 else 0], x', now)
  | HLookup d => let (r, x') := lookup_by_duid now d x in (match r with Some a => [a] | None => [] end, x', now)
  | HAddPerm ip d => let (ok, x') := add_permanent now ip d x in ([if ok then 1 else 0], x', now)
  | HFind sg d busy res tl tend =>
      let free := fun a => negb (existsb (N.eqb a) busy) in
      ([if find_ip_valid x now tl sg d free res then 1 else 0], x, tend)
  | HHold ip d ttl => let (ok, x') := hold_client now ip d ttl x in ([if ok then 1 else 0], x', now)
  | HOffer sg d busy res tl tend ttl =>
      let free := fun a => negb (existsb (N.eqb a) busy) in
      if find_ip_valid x now tl sg d free res then
        match res with
        | Some a => let (ok, x') := hold_client tend (Some a) d ttl x in ([if ok then 1 else 0], x', tend)
        | None => ([1], x, tend)
        end
      else ([0], x, tend)
  | HAdvance dt => ([], x, (now + dt)%Z)
  | HInRange ip => ([if in_managed_range x ip then 1 else 0], x, now)
  end.

Fixpoint hrun (x : ipdb) (now : Z) (h : list hop) : list (list N) :=
  match h with
  | [] => []
  | op :: r => let '(res, x', now') := hstep x now op in res :: hrun x' now' r
  end.
