(* C17, hook side: model of lib/resolvconf/resolvconf.go, function Run (the part before update()).

   Run scans os.Environ(): each entry is split with strings.SplitN(e, "=", 2); entries without "=" are skipped;
   the LAST entry PSA_DHCPC_DOMAIN_NAME whose value matches reGoodChars sets the search domain; EVERY entry
   PSA_DHCPC_DNS_LIST with a non-empty value appends the comma separated pieces that match reGoodNums.
   Both expressions have the shape ^[class]+$ over ASCII characters: `$` without the m flag matches only at the
   end of the text, so the whole string must be a non-empty sequence of class characters (a trailing "\n" does not
   match); a byte >= 0x80 decodes to a rune outside every ASCII class.  No name server: no file is written.

   os_environ models what the Go runtime (syscall.copyenv/Environ) hands to Run for a given envp of the process:
   for entries with "=", only the FIRST occurrence of a key survives; empty strings are dropped; entries without
   "=" are kept.  No proofs in this file. *)
From PSA Require Import gen.GoFacts model.Bytes model.Sanitize.
Open Scope N_scope.

(* strings.SplitN(e, sep, 2) for a one-byte separator: None when the separator does not occur *)
Fixpoint split_first (sep : N) (e : bytes) : option (bytes * bytes) :=
  match e with
  | [] => None
  | c :: r => if c =? sep then Some ([], r)
              else match split_first sep r with Some (k, v) => Some (c :: k, v) | None => None end
  end.

(* strings.Split(s, sep) for a one-byte separator: always at least one piece *)
Fixpoint split_on (sep : N) (b : bytes) : list bytes :=
  match b with
  | [] => [[]]
  | c :: r => if c =? sep then [] :: split_on sep r
              else match split_on sep r with h :: t => (c :: h) :: t | [] => [[c]] end
  end.

(* re.MatchString(s) for an expression [class]+ over ASCII characters, anchored (^...$) or not *)
Definition class_byte (cls : list N) (neg : bool) (c : N) : bool :=
  if c <? 128 then class_matches_ascii cls neg c else class_matches_other neg.
Definition re_match (cls : list N) (neg anchored : bool) (s : bytes) : bool :=
  if anchored then negb (match s with [] => true | _ => false end) && forallb (class_byte cls neg) s
  else existsb (class_byte cls neg) s.

Definition good_chars (s : bytes) : bool := re_match gf_re_good_chars_class gf_re_good_chars_negated gf_re_good_chars_anchored s.
Definition good_nums (s : bytes) : bool := re_match gf_re_good_nums_class gf_re_good_nums_negated gf_re_good_nums_anchored s.

Definition is_nil (s : bytes) : bool := match s with [] => true | _ => false end.

Record scan_state := { sc_domain : bytes; sc_ns : list bytes }.

Definition scan_entry (st : scan_state) (e : bytes) : scan_state :=
  match split_first gf_resolv_kv_sep e with
  | None => st
  | Some (k, v) =>
    {| sc_domain := if bytes_eqb k gf_resolv_key_domain && good_chars v then v else sc_domain st;
       sc_ns := if bytes_eqb k gf_resolv_key_dns && negb (is_nil v)
                then sc_ns st ++ filter good_nums (split_on gf_resolv_list_sep v) else sc_ns st |}
  end.

Definition scan (env : list bytes) : scan_state := fold_left scan_entry env {| sc_domain := []; sc_ns := [] |}.

Definition search_line (d : bytes) : bytes := gf_resolv_search_prefix ++ d ++ gf_resolv_search_suffix.
Definition ns_line (n : bytes) : bytes := gf_resolv_ns_prefix ++ n ++ gf_resolv_ns_suffix.

(* the buffer handed to update(); None = Run returns before update (file untouched) *)
Definition render (env : list bytes) : option bytes :=
  let st := scan env in
  match sc_ns st with
  | [] => None
  | _ => Some (gf_resolv_header ++ (if is_nil (sc_domain st) then [] else search_line (sc_domain st))
               ++ flat_map ns_line (sc_ns st))
  end.

(* ---- what os.Environ() returns in a process started with environment block envp ---- *)
Definition env_key (e : bytes) : option bytes :=
  match split_first 61 e with Some (k, _) => Some k | None => None end.

Fixpoint key_seen (k : bytes) (seen : list bytes) : bool :=
  match seen with [] => false | s :: r => bytes_eqb k s || key_seen k r end.

Fixpoint os_environ_from (seen : list bytes) (envp : list bytes) : list bytes :=
  match envp with
  | [] => []
  | e :: r =>
    match env_key e with
    | None => (if is_nil e then [] else [e]) ++ os_environ_from seen r
    | Some k => if key_seen k seen then os_environ_from seen r else e :: os_environ_from (k :: seen) r
    end
  end.
Definition os_environ (envp : list bytes) : list bytes := os_environ_from [] envp.

(* the whole hook: psa-dhcpc -syshook started with envp *)
Definition syshook (envp : list bytes) : option bytes := render (os_environ envp).
