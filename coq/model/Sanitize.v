(* C17, client side: model of lib/client/callback/callback.go (envEntry, dumpScriptConf).

   envEntry(key, val) = fmt.Sprintf("PSA_DHCPC_%s=%s", key, reBadChars.ReplaceAllString(val, "_")).
   Go's regexp package walks a string rune by rune (utf8.DecodeRuneInString): an ASCII byte is one rune;
   a well-formed multi-byte sequence is ONE rune; any byte that does not start a well-formed sequence decodes
   to U+FFFD with width 1.  reBadChars is a (negated) class of ASCII characters, so every rune >= 0x80 and every
   U+FFFD is a match; each match is replaced by the replacement string once.

   All literals (class, negation flag, replacement, format pieces, keys, join separator) come from GoFacts.v.
   No proofs in this file. *)
From PSA Require Import gen.GoFacts model.Bytes.
Open Scope N_scope.

Definition mem_n (x : N) (l : list N) : bool := existsb (N.eqb x) l.
Definition between (lo hi x : N) : bool := (lo <=? x) && (x <=? hi).

(* ---- utf8.DecodeRuneInString: width of the rune that starts with byte c, r being the bytes after c ----
   (table `first`/`acceptRanges` of unicode/utf8: C2..DF 2 bytes; E0 [A0-BF]; E1..EC, EE..EF [80-BF]; ED [80-9F];
   F0 [90-BF]; F1..F3 [80-BF]; F4 [80-8F]; everything else, a short input or a bad continuation: RuneError, width 1) *)
Definition rune_width (c : N) (r : bytes) : nat :=
  if c <? 128 then 1%nat
  else if c <? 194 then 1%nat
  else if c <=? 223 then
    match r with c1 :: _ => if between 128 191 c1 then 2%nat else 1%nat | _ => 1%nat end
  else if c <=? 239 then
    let lo := if c =? 224 then 160 else 128 in
    let hi := if c =? 237 then 159 else 191 in
    match r with
    | c1 :: c2 :: _ => if between lo hi c1 && between 128 191 c2 then 3%nat else 1%nat
    | _ => 1%nat
    end
  else if c <=? 244 then
    let lo := if c =? 240 then 144 else 128 in
    let hi := if c =? 244 then 143 else 191 in
    match r with
    | c1 :: c2 :: c3 :: _ => if between lo hi c1 && between 128 191 c2 && between 128 191 c3 then 4%nat else 1%nat
    | _ => 1%nat
    end
  else 1%nat.

(* does a bracket expression over ASCII characters (class, negated?) match the rune?  For an ASCII byte by
   membership; a rune >= 0x80 (also U+FFFD for invalid input) is outside every ASCII class. *)
Definition class_matches_ascii (cls : list N) (neg : bool) (c : N) : bool := xorb neg (mem_n c cls).
Definition class_matches_other (neg : bool) : bool := neg.

Definition bad_ascii (c : N) : bool := class_matches_ascii gf_re_bad_chars_class gf_re_bad_chars_negated c.
Definition bad_other : bool := class_matches_other gf_re_bad_chars_negated.

(* reBadChars.ReplaceAllString(val, repl).  `skip` counts continuation bytes of a multi-byte rune whose first
   byte has already been handled (they belong to the same match, or are copied with it). *)
Fixpoint replace_bad (skip : nat) (b : bytes) : bytes :=
  match b with
  | [] => []
  | c :: r =>
    match skip with
    | S k => (if bad_other then [] else [c]) ++ replace_bad k r
    | O =>
      if c <? 128 then (if bad_ascii c then gf_env_replacement else [c]) ++ replace_bad 0 r
      else (if bad_other then gf_env_replacement else [c]) ++ replace_bad (rune_width c r - 1) r
    end
  end.

Definition sanitize (val : bytes) : bytes := replace_bad 0 val.

(* fmt.Sprintf("PSA_DHCPC_%s=%s", key, val') *)
Definition env_entry (key val : bytes) : bytes := gf_env_prefix ++ key ++ gf_env_sep ++ sanitize val.

(* ---- number formatting ---- *)
(* strconv decimal of a natural number; the fuel (binary size) bounds the number of decimal digits *)
Fixpoint dec_fuel (fuel : nat) (n : N) (acc : bytes) : bytes :=
  let acc' := (48 + n mod 10) :: acc in
  match fuel with
  | O => acc'
  | S f => if n <? 10 then acc' else dec_fuel f (n / 10) acc'
  end.
Definition dec_n (n : N) : bytes := dec_fuel (N.size_nat n) n [].
(* fmt.Sprintf("%d", int) *)
Definition dec_z (z : Z) : bytes := if (z <? 0)%Z then 45 :: dec_n (Z.abs_N z) else dec_n (Z.abs_N z).

Definition hex_digit (x : N) : N := if x <? 10 then 48 + x else 87 + x.
Fixpoint hex_bytes (b : bytes) : bytes :=
  match b with [] => [] | c :: r => hex_digit (c / 16 mod 16) :: hex_digit (c mod 16) :: hex_bytes r end.

Definition str_nil : bytes := [60; 110; 105; 108; 62].       (* "<nil>" *)

(* net.IP.String() for a nil/empty value, a 4-byte value, and a value of any other length except 16
   (16-byte values use the IPv6 text form, which is not modelled: never produced by the DHCP option decoders) *)
Definition ip_string (ip : bytes) : bytes :=
  match ip with
  | [] => str_nil
  | [a; b; c; d] => dec_n a ++ [46] ++ dec_n b ++ [46] ++ dec_n c ++ [46] ++ dec_n d
  | _ => 63 :: hex_bytes ip
  end.
(* net.IPMask.String() *)
Definition mask_string (m : bytes) : bytes := match m with [] => str_nil | _ => hex_bytes m end.

Fixpoint join_with (sep : N) (l : list bytes) : bytes :=
  match l with
  | [] => []
  | [x] => x
  | x :: r => x ++ sep :: join_with sep r
  end.

(* ---- dumpScriptConf ----
   The abstract interface configuration carries the *strings* that Go's String()/Sprintf("%d") calls return, as
   arbitrary byte strings (router, address, netmask, each DNS entry, MTU and lease seconds); DomainName is the
   option payload itself.  `ifconfig_v4` below fills them from raw address bytes and integers. *)
Record ifconf := {
  ic_router : bytes;
  ic_ip : bytes;
  ic_netmask : bytes;
  ic_domain : bytes;
  ic_dns : list bytes;
  ic_mtu : bytes;
  ic_lease : bytes
}.

Definition ifconf_values (c : ifconf) : list bytes :=
  [ic_router c; ic_ip c; ic_netmask c; ic_domain c; join_with gf_env_dns_join (ic_dns c); ic_mtu c; ic_lease c].

Fixpoint zip_entries (ks vs : list bytes) : list bytes :=
  match ks, vs with
  | k :: ks', v :: vs' => env_entry k v :: zip_entries ks' vs'
  | _, _ => []
  end.

Definition dump_script_conf (c : ifconf) : list bytes := zip_entries gf_env_keys (ifconf_values c).

(* the same from raw values: addresses as the bytes of the net.IP / net.IPMask values, MTU as int,
   LeaseDuration as a whole number of seconds *)
Definition ifconfig_v4 (router ip mask domain : bytes) (dns : list bytes) (mtu lease_s : Z) : ifconf :=
  {| ic_router := ip_string router; ic_ip := ip_string ip; ic_netmask := mask_string mask; ic_domain := domain;
     ic_dns := map ip_string dns; ic_mtu := dec_z mtu; ic_lease := dec_z lease_s |}.
