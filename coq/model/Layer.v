(* Model of lib/layer/{ip,udp,arp}.go.  Addresses are 32-bit numbers; a nil
   net.IP assembles as 0.0.0.0 exactly as the Go code leaves the bytes zero. *)
From PSA Require Import gen.GoFacts model.Bytes model.Checksum.
Open Scope N_scope.

Record ipv4 := { ip_id : N; ip_flags : N; ip_ttl : N; ip_proto : N; ip_csum : N;
                 ip_src : N; ip_dst : N; ip_data : bytes }.

Definition ipv4_hlen : N := gf_layer_ipv4Hlen.
Definition udp_hlen : N := gf_layer_udpHlen.

Definition ipv4_assemble (h : ipv4) : res bytes :=
  let dlen := len (ip_data h) in
  let b := [69; 0] ++ put16 (u16 (ipv4_hlen + dlen)) ++ put16 (ip_id h) ++ put16 (ip_flags h)
           ++ [ip_ttl h; ip_proto h; 0; 0] ++ put32 (ip_src h) ++ put32 (ip_dst h) ++ ip_data h in
  set_v4_checksum b.

Definition decode_ipv4 (b : bytes) : res ipv4 :=
  let plen := len b in
  if plen <? ipv4_hlen then Err else
  do b0 <- idx b 0;
  let version := b0 / 16 in
  let ihl := u8 (b0 mod 16 * 4) in
  if negb (version =? 4) || (plen <? ihl) || (ihl <? ipv4_hlen) then Err else
  do tlen <- get16 b 2;
  if negb (tlen =? plen) then Err else
  do id <- get16 b 4;
  do fl <- get16 b 6;
  do ttl <- idx b 8;
  do pr <- idx b 9;
  do cs <- get16 b 10;
  do src <- get32 b 12;
  do dst <- get32 b 16;
  do data <- slice b ihl tlen;
  Ok {| ip_id := id; ip_flags := fl; ip_ttl := ttl; ip_proto := pr; ip_csum := cs;
        ip_src := src; ip_dst := dst; ip_data := data |}.

Record udp := { udp_sport : N; udp_dport : N; udp_data : bytes }.

Definition udp_assemble (u : udp) : bytes :=
  put16 (udp_sport u) ++ put16 (udp_dport u) ++ put16 (u16 (udp_hlen + len (udp_data u))) ++ [0; 0] ++ udp_data u.

Definition decode_udp (b : bytes) : res udp :=
  let plen := len b in
  if plen <? udp_hlen then Err else
  do tlen <- get16 b 4;
  if negb (tlen =? plen) then Err else
  do sp <- get16 b 0;
  do dp <- get16 b 2;
  do data <- slice_from b udp_hlen;
  Ok {| udp_sport := sp; udp_dport := dp; udp_data := data |}.

Record arp := { arp_smac : bytes; arp_sip : N; arp_tmac : bytes; arp_tip : N; arp_op : N }.

(* ARP.Assemble: copy(b[8:], SenderMAC) and copy(b[18:], TargetMAC) copy
   min(len, room) bytes and are overwritten by the later address copies *)
Definition arp_assemble (a : arp) : bytes :=
  let b := [0; 1; 8; 0; 6; 4; 0; arp_op a] ++ zeros 20 in
  let b := overwrite b 8 (arp_smac a) in
  let b := overwrite b 14 (put32 (arp_sip a)) in
  let b := overwrite b 18 (arp_tmac a) in
  overwrite b 24 (put32 (arp_tip a)).

Definition decode_arp (b : bytes) : res arp :=
  if negb (len b =? 28) then Err else
  do op <- idx b 7;
  do sm <- slice b 8 14;
  do sip <- get32 b 14;
  do tm <- slice b 18 24;
  do tip <- get32 b 24;
  Ok {| arp_smac := sm; arp_sip := sip; arp_tmac := tm; arp_tip := tip; arp_op := op |}.
