(* Model of server start-up: lib/server/server.go (New, dhcpOptions), lib/server/leaseopts/leaseopts.go
   (ParseConfig, SetClientOverrides, ipv4) and the option constructors of lib/dhcpmsg/assemble.go that
   dhcpOptions calls.  Properties C18 and C07.

   The configuration is ABSTRACT: every textual field has already been classified by the Go standard
   library (net.ParseCIDR, net.ParseIP + To4, net.ParseMAC, time.ParseDuration, strings.Split) — the
   harness produces the classification by calling the same functions on the strings it hands to the
   real server.New (trusted-base item 6 of DESIGN.md section 4).

   The per-client section is a Go map; the model takes its entries as a LIST in map-iteration order.
   That order is an oracle: the theorems quantify over every permutation of the list.

   The model reflects the code AFTER the repairs of F5a-e (DESIGN.md section 6):
     F5a  an error of SetClientOverrides makes New fail;
     F5b  the duplicate test uses the key the entry is stored under (the internal duid);
     F5c  values one DHCP option cannot carry are rejected: more than maxOptionLen/4 addresses in a
          DNS/NTP list, a domain or host name longer than maxOptionLen bytes, a lease longer than
          maxLeaseSeconds;
     F5d  a per-client host name is sent as option 12;
     F5e  the advertised lease is the integer number of whole seconds (no float64 round trip).
   No proofs in this file. *)
From PSA Require Import gen.GoFacts model.Bytes model.Dhcp model.Clients model.Ipdb spec.SpecTable spec.SpecIpdb model.Server.
Open Scope N_scope.

(* ---- the abstract configuration ---- *)
Inductive net_c :=
| NetBad                      (* net.ParseCIDR returned an error *)
| NetV6                       (* parsed, but the mask has 16 bytes / the address is not IPv4: ipdb.New refuses it *)
| Net4 (ip mask : N).         (* IPNet.IP and IPNet.Mask as 32-bit numbers *)

Inductive lease_c :=
| LeaseBad                    (* time.ParseDuration returned an error *)
| Dur (ns : Z).               (* nanoseconds, may be negative *)

Inductive addr_c :=
| AUnset                      (* the empty string *)
| ABad                        (* net.ParseIP = nil, or To4() = nil (IPv6) *)
| V4 (n : N).

Inductive range_c :=
| RUnset                      (* "" *)
| RBadFormat                  (* strings.Split(dr, "-") does not give two parts *)
| RBadIP                      (* net.ParseIP of a part is nil *)
| Range (a b : option N).     (* both parse; None = parses as IPv6 (To4 = nil, refused by toUip) *)

Inductive mac_c :=
| BadMac                      (* net.ParseMAC returned an error *)
| Mac (m : bytes).

Record client_c := {
  k_key : mac_c; k_ip : addr_c; k_router : addr_c; k_dns : list addr_c; k_ntp : list addr_c; k_hostname : bytes }.

Record config := {
  g_network : net_c; g_lease : lease_c; g_router : addr_c; g_dns : list addr_c; g_ntp : list addr_c;
  g_domain : bytes; g_range : range_c; g_static_only : bool;
  g_clients : list client_c }.    (* map entries in iteration order (oracle) *)

(* ---- limits of one DHCP option (Assemble writes the payload length into ONE byte) ---- *)
Definition max_opt_len : N := gf_leaseopts_maxOptionLen.          (* 255 *)
Definition max_addrs : N := max_opt_len / 4.                       (* 63 addresses of 4 bytes *)
Definition max_lease_secs : Z := Z.of_N gf_leaseopts_maxLeaseSeconds.  (* 2^32 - 1 *)
Definition min_lease_ns : Z := Z.of_N gf_server_min_lease_ns.
Definition second_ns : Z := 1000000000.

(* ---- leaseopts.LeaseOptions ---- *)
Record lease_opts := {
  lo_ip : option N; lo_domain : bytes; lo_hostname : bytes; lo_mask : N;
  lo_router : option N; lo_dns : list N; lo_ntp : list N; lo_lease : Z }.

(* leaseopts.ipv4(list...): a single empty string means "unset"; every other element must parse as IPv4 *)
Fixpoint parse_all (l : list addr_c) : res (list N) :=
  match l with
  | [] => Ok []
  | V4 n :: r => do t <- parse_all r; Ok (n :: t)
  | _ :: _ => Err
  end.

Definition ipv4_list (l : list addr_c) : res (list N) :=
  match l with
  | [AUnset] => Ok []
  | _ => parse_all l
  end.

Definition too_many (l : list N) : bool := max_addrs <? len l.
Definition too_long (b : bytes) : bool := max_opt_len <? len b.

(* ParseConfig.  The network itself is examined by new_server (ParseCIDR error first, ipdb.New after
   ParseConfig); lo_mask is only meaningful for Net4. *)
Definition parse_config (c : config) : res lease_opts :=
  match g_network c with
  | NetBad => Err
  | nw =>
    match g_lease c with
    | LeaseBad => Err
    | Dur ns =>
      if (ns <? min_lease_ns)%Z then Err else
      if (max_lease_secs <? ns / second_ns)%Z then Err else          (* F5c *)
      do router <- ipv4_list [g_router c];
      do dns <- ipv4_list (g_dns c);
      do ntp <- ipv4_list (g_ntp c);
      if too_many dns || too_many ntp || too_long (g_domain c) then Err else   (* F5c *)
      Ok {| lo_ip := None; lo_domain := g_domain c; lo_hostname := [];
            lo_mask := match nw with Net4 _ m => m | _ => 0 end;
            lo_router := match router with [x] => Some x | _ => None end;
            lo_dns := dns; lo_ntp := ntp; lo_lease := ns |}
    end
  end.

(* SetClientOverrides on a copy of the global options *)
Definition set_client_overrides (o : lease_opts) (k : client_c) : res lease_opts :=
  do ip <- ipv4_list [k_ip k];
  do router <- ipv4_list [k_router k];
  do dns <- ipv4_list (k_dns k);
  do ntp <- ipv4_list (k_ntp k);
  if too_many dns || too_many ntp || too_long (k_hostname k) then Err else     (* F5c *)
  Ok {| lo_ip := match ip with [x] => Some x | _ => lo_ip o end;
        lo_domain := lo_domain o;
        lo_hostname := match k_hostname k with [] => lo_hostname o | h => h end;
        lo_mask := lo_mask o;
        lo_router := match router with [x] => Some x | _ => lo_router o end;
        lo_dns := match dns with [] => lo_dns o | _ => dns end;
        lo_ntp := match ntp with [] => lo_ntp o | _ => ntp end;
        lo_lease := lo_lease o |}.

(* duidFromHwAddr is Server.sduid; the Go map keyed by the internal duid is an association list
   searched with Server.assoc (first match; new_server never stores a key twice) *)
Definition overrides := list (bytes * lease_opts).

(* the state New builds: ranges, permanent bindings, global options, per-client merged options *)
Record server_state := {
  s_db : ipdb;                 (* netFrom/netTo/dynFrom/dynTo (the store component is not used: see s_table) *)
  s_table : table;             (* bindings, as the reference table of C11 (spec/SpecTable.v) *)
  s_self : N;
  s_lopts : lease_opts;
  s_overrides : overrides }.

(* The clock reading passed to the table operations is irrelevant here: New only inserts permanent
   bindings and those are live at every instant (Clients.live). *)
Definition t0 : Z := 0%Z.

(* the loop "for k, v := range conf.GetClient()" *)
Fixpoint add_clients (lopts : lease_opts) (db : ipdb) (l : list client_c) (t : table) (ovs : overrides)
  : res (table * overrides) :=
  match l with
  | [] => Ok (t, ovs)
  | k :: r =>
    match k_key k with
    | BadMac => Err
    | Mac m =>
      do oo <- set_client_overrides lopts k;                          (* F5a: the error is returned *)
      do t1 <- match lo_ip oo with
               | Some ip => let (ok, t') := t_add_permanent db t0 (Some ip) (sduid m) t in if ok then Ok t' else Err
               | None => Ok t
               end;
      match assoc (sduid m) ovs with                                 (* F5b: same key as the store below *)
      | Some _ => Err
      | None => add_clients lopts db r t1 (ovs ++ [(sduid m, oo)])
      end
    end
  end.

Definition configure_range (db : ipdb) (r : range_c) : res ipdb :=
  match r with
  | RUnset => Ok db
  | RBadFormat => Err
  | RBadIP => Err
  | Range a b => match set_dynamic_range db a b with Some db' => Ok db' | None => Err end
  end.

(* server.New.  own = libif.InterfaceAddr: None when the interface has no address or the address is
   not IPv4 (both end in an error). *)
Definition new_server (c : config) (own : option N) (own_mac : bytes) : res server_state :=
  match own with
  | None => Err
  | Some self =>
    do lopts <- parse_config c;
    do db <- match g_network c with Net4 ip mask => Ok (ipdb_new ip mask) | _ => Err end;
    do db1 <- configure_range db (g_range c);
    let db2 := if g_static_only c then disable_dynamic db1 else db1 in
    do tov <- add_clients lopts db2 (g_clients c) [] [];
    let (ok, t') := t_add_permanent db2 t0 (Some self) (sduid own_mac) (fst tov) in
    if ok then Ok {| s_db := db2; s_table := t'; s_self := self; s_lopts := lopts; s_overrides := snd tov |}
    else Err
  end.

(* ---- dhcpOptions ---- *)
(* OptionIPAddressLeaseDuration: whole seconds in a uint32 (F5e: integer division, uint32 conversion wraps) *)
Definition lease_secs (ns : Z) : N := u32 (Z.to_N (ns / second_ns)).

Definition ips_bytes (l : list N) : bytes := flat_map put32 l.          (* optIP *)

Definition effective_options (s : server_state) (mac : bytes) : list dhcp_opt :=
  let g := s_lopts s in
  let ov := assoc (sduid mac) (s_overrides s) in
  let pick {A} (f : lease_opts -> A) (isset : A -> bool) (mk : A -> dhcp_opt) : list dhcp_opt :=
    match ov with
    | Some o => if isset (f o) then [mk (f o)] else if isset (f g) then [mk (f g)] else []
    | None => if isset (f g) then [mk (f g)] else []
    end in
  [(gf_dhcpmsg_OptIPAddressLeaseDuration, put32 (lease_secs (lo_lease g)));
   (gf_dhcpmsg_OptSubnetMask, put32 (lo_mask g))]
  ++ pick lo_router (fun r => match r with Some _ => true | None => false end)
          (fun r => (gf_dhcpmsg_OptRouter, match r with Some x => put32 x | None => [] end))
  ++ pick lo_dns (fun l => match l with [] => false | _ => true end) (fun l => (gf_dhcpmsg_OptDNS, ips_bytes l))
  ++ pick lo_ntp (fun l => match l with [] => false | _ => true end) (fun l => (gf_dhcpmsg_OptNTP, ips_bytes l))
  ++ pick lo_domain (fun d => match d with [] => false | _ => true end) (fun d => (gf_dhcpmsg_OptDomainName, d))
  ++ match ov with                                                          (* F5d *)
     | Some o => match lo_hostname o with [] => [] | h => [(gf_dhcpmsg_OptHostname, h)] end
     | None => []
     end.

(* sendMsg + replies.AssembleOffer / AssembleACK: the option list of a reply of type typ *)
Definition reply_options (s : server_state) (typ : N) (mac : bytes) : list dhcp_opt :=
  (gf_dhcpmsg_OptMessageType, [typ]) :: (gf_dhcpmsg_OptServerIdentifier, put32 (s_self s)) :: effective_options s mac.

(* the duration handed to UpdateClient for an acknowledged lease (netio.go: sx.lopts.LeaseDuration) *)
Definition reserved_ns (s : server_state) : Z := lo_lease (s_lopts s).
