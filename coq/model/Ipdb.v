(* Model of lib/server/ipdb/ipdb.go and uip/uip.go.  Addresses are 32-bit numbers; an argument of
   type net.IP that is nil or not IPv4 is None. *)
From PSA Require Import model.Bytes model.Clients.
Open Scope N_scope.

Record ipdb := { net_from : N; net_to : N; dyn_from : N; dyn_to : N; st : store }.

(* fromTo(network, netmask) with the uint32 arithmetic written out *)
Definition from_to (network mask : N) : N * N :=
  let start := N.land network mask in
  let endd := u32 (start + (4294967295 - mask)) in
  if start =? endd then (start, endd) else (u32 (start + 1), u32 (endd + 4294967295)).

Definition ipdb_new (network mask : N) : ipdb :=
  let (f, t) := from_to network mask in
  {| net_from := f; net_to := t; dyn_from := f; dyn_to := t; st := empty_store |}.

Definition to_uip (x : ipdb) (ip : option N) : option N :=
  match ip with
  | None => None
  | Some n => if (n <? net_from x) || (net_to x <? n) then None else Some n
  end.

Definition in_managed_range (x : ipdb) (ip : option N) : bool :=
  match to_uip x ip with Some _ => true | None => false end.

Definition with_store (x : ipdb) (s : store) : ipdb :=
  {| net_from := net_from x; net_to := net_to x; dyn_from := dyn_from x; dyn_to := dyn_to x; st := s |}.

(* SetDynamicRange: None = error *)
Definition set_dynamic_range (x : ipdb) (b e : option N) : option ipdb :=
  match to_uip x b, to_uip x e with
  | Some b', Some e' =>
    if e' <? b' then None
    else Some {| net_from := net_from x; net_to := net_to x; dyn_from := b'; dyn_to := e'; st := st x |}
  | _, _ => None
  end.

Definition disable_dynamic (x : ipdb) : ipdb :=
  {| net_from := net_from x; net_to := net_to x; dyn_from := 0; dyn_to := 0; st := st x |}.

Definition dynamic_disabled (x : ipdb) : bool := (dyn_to x =? 0) && (dyn_from x =? 0).

(* LookupClientByDuid: Lookup(now, Uip(0), duid) *)
Definition lookup_by_duid (now : Z) (duid : bytes) (x : ipdb) : option N * ipdb :=
  let '(_, r, s') := lookup now 0 duid (st x) in
  match r with
  | Some p => match nth_error (heap s') p with Some e => (Some (e_ip e), with_store x s') | None => (None, with_store x s') end
  | None => (None, with_store x s')
  end.

Definition add_permanent (now : Z) (ip : option N) (duid : bytes) (x : ipdb) : bool * ipdb :=
  match to_uip x ip with
  | None => (false, x)
  | Some n => let (ok, s') := inject now n duid 0%Z true (st x) in (ok, with_store x s')
  end.

(* UpdateClient: optimistic SetLease, else Inject then SetLease *)
Definition update_client (now : Z) (ip : option N) (duid : bytes) (ttl : Z) (x : ipdb) : bool * ipdb :=
  match to_uip x ip with
  | None => (false, x)
  | Some n =>
    let until := (now + ttl)%Z in
    let (ok1, s1) := set_lease now n duid until (st x) in
    if ok1 then (true, with_store x s1) else
    let (ok2, s2) := inject now n duid until false s1 in
    if negb ok2 then (false, with_store x s2) else
    let (ok3, s3) := set_lease now n duid until s2 in
    (ok3, with_store x s3)
  end.

(* HoldClient: like UpdateClient, but a binding of this very client that outlasts now+ttl is kept *)
Definition hold_client (now : Z) (ip : option N) (duid : bytes) (ttl : Z) (x : ipdb) : bool * ipdb :=
  match to_uip x ip with
  | None => (false, x)
  | Some n =>
    let '(r1, r2, s') := lookup now n duid (st x) in
    let x' := with_store x s' in
    match r1, r2 with
    | Some p, Some q =>
      if Nat.eqb p q then
        match nth_error (heap s') p with
        | Some e => if (now + ttl <? e_until e)%Z then (true, x') else update_client now ip duid ttl x'
        | None => update_client now ip duid ttl x'
        end
      else update_client now ip duid ttl x'
    | _, _ => update_client now ip duid ttl x'
    end
  end.

(* Uip.Valid *)
Definition uip_valid (n : N) : bool := negb (n mod 256 =? 0) && negb (n mod 256 =? 255).

(* The candidate loop of FindIP.  Every candidate is looked up at the clock reading current at that
   moment; a probe of address a answers (free?, duration) and the clock advances by the duration.
   cands are the offsets v; picked = dynFrom + v in uint32 arithmetic. *)
Fixpoint search (cands : list N) (i : nat) (cancelled : nat -> bool) (probe : N -> bool * Z)
                (now : Z) (x : ipdb) (s : store) : option N * store * Z :=
  match cands with
  | [] => (None, s, now)
  | v :: r =>
    if cancelled i then (None, s, now) else
    let picked := u32 (dyn_from x + v) in
    let '(e, _, s') := lookup now picked [] s in
    match e with
    | Some _ => search r (S i) cancelled probe now x s'
    | None =>
      if uip_valid picked then
        let (free, dt) := probe picked in
        if free then (Some picked, s', (now + dt)%Z) else search r (S i) cancelled probe (now + dt)%Z x s'
      else search r (S i) cancelled probe now x s'
    end
  end.

(* FindIP.  perm is the result of rand.Perm(1 + dynTo - dynFrom) (an oracle); sugg the suggested
   address.  The suggestion is tried first only when it lies in the dynamic range (repair F1). *)
Definition find_ip (perm : list N) (cancelled : nat -> bool) (probe : N -> bool * Z) (now : Z)
                   (sugg : option N) (duid : bytes) (x : ipdb) : option N * ipdb * Z :=
  let n := match to_uip x sugg with Some n => n | None => 0 end in
  let '(oip, oduid, s1) := lookup now n duid (st x) in
  match oduid with
  | Some p => match nth_error (heap s1) p with
              | Some e => (Some (e_ip e), with_store x s1, now)
              | None => (None, with_store x s1, now) end
  | None =>
    if dynamic_disabled x then (None, with_store x s1, now) else
    let cands := match oip with
                 | None => if (dyn_from x <=? n) && (n <=? dyn_to x) then u32 (n + 4294967296 - dyn_from x) :: perm else perm
                 | Some _ => perm end in
    let '(r, s2, t) := search cands 0 cancelled probe now x s1 in
    (r, with_store x s2, t)
  end.

(* OfferIP: FindIP and HoldClient under one lock (the hold happens at the clock reading after the search) *)
Definition offer_ip (perm : list N) (cancelled : nat -> bool) (probe : N -> bool * Z) (now : Z)
                    (sugg : option N) (duid : bytes) (ttl : Z) (x : ipdb) : option N * ipdb * Z :=
  let '(r, x1, t1) := find_ip perm cancelled probe now sugg duid x in
  match r with
  | None => (None, x1, t1)
  | Some a => let (ok, x2) := hold_client t1 (Some a) duid ttl x1 in ((if ok then Some a else None), x2, t1)
  end.
