(* C20: a small file system and the writer program of lib/resolvconf/resolvconf.go, function update(), as a small-step
   machine with any number of writers.

   update(buf):
       tmpfh, err := ioutil.TempFile("/etc", "resolvconf-*.tmp")   -- openat O_RDWR|O_CREAT|O_EXCL 0600, random name,
       if err != nil { return err }                                   retried with another name on EEXIST
       name := tmpfh.Name()
       defer func() { if err != nil { os.Remove(name) } }()        -- result of Remove ignored
       nr, werr := tmpfh.Write(buf); cerr := tmpfh.Close()          -- Close is called whatever Write returned
       werr / cerr / nr != len(buf)  -> error
       os.Chmod(name, 0644)          -> error
       os.Rename(name, "/etc/resolv.conf") -> error
       return nil

   One directory (the one holding both the temp file and the target: gf_resolv_same_dir); a directory is a list of
   (name, file); only `lookup` is observable.  Files are addressed by NAME: this agrees with the descriptor-addressed
   write of the real program as long as nobody else renames or unlinks a live writer's temp name, which is theorem
   C20_tmp_names_distinct (every actor of the model touches only its own temp name and the target).

   Assumed of the kernel (trusted base, POSIX): each step below is atomic with respect to the others; rename replaces the
   target atomically and leaves both names unchanged when it fails; O_EXCL creation fails when the name exists; a failed
   or injected-failing call has no effect (except write, which may have written a prefix); SIGKILL lets no further step of
   the victim happen.  No proofs in this file. *)
From Coq Require Import List NArith Bool.
From PSA Require Import gen.GoFacts model.Bytes.
Import ListNotations.
Open Scope N_scope.

Record file := { f_data : bytes; f_mode : N }.
Definition dir := list (bytes * file).

Fixpoint lookup (n : bytes) (d : dir) : option file :=
  match d with
  | [] => None
  | (m, f) :: r => if bytes_eqb n m then Some f else lookup n r
  end.
Definition remove (n : bytes) (d : dir) : dir := filter (fun e => negb (bytes_eqb n (fst e))) d.
Definition set (n : bytes) (f : file) (d : dir) : dir := (n, f) :: remove n d.

(* write(fd, x) on the file named n: appends at the end (the descriptor is fresh, its offset is the length) *)
Definition append (n : bytes) (x : bytes) (d : dir) : dir :=
  match lookup n d with
  | None => d
  | Some f => set n {| f_data := f_data f ++ x; f_mode := f_mode f |} d
  end.
Definition chmod (n : bytes) (m : N) (d : dir) : dir :=
  match lookup n d with
  | None => d
  | Some f => set n {| f_data := f_data f; f_mode := m |} d
  end.

Definition resolv_name : bytes := gf_resolv_target_name.
Definition tmp_name (r : bytes) : bytes := gf_resolv_tmp_prefix ++ r ++ gf_resolv_tmp_suffix.
(* os.CreateTemp opens with mode 0600 (Go standard library, observed by the strace cases of the harness) *)
Definition tmp_mode : N := 384.
Definition final_file (b : bytes) : file := {| f_data := b; f_mode := gf_resolv_mode |}.

(* ---- one writer ---- *)
Inductive wstate :=
| SCreate                              (* before TempFile *)
| SWrite (t : bytes)                   (* temp file t created, before Write *)
| SClose (t : bytes) (werr : bool)     (* before Close; werr: Write returned an error or was short *)
| SChmod (t : bytes)
| SRename (t : bytes)
| SCleanup (t : bytes)                 (* err != nil: the deferred os.Remove(name) is next *)
| SOk                                  (* returned nil *)
| SErr (left : option bytes).          (* returned an error; Some t: os.Remove(t) itself failed, t was left behind *)

Record writer := { w_buf : bytes; w_st : wstate; w_dead : bool }.

(* the temp name the writer is responsible for *)
Definition holds (s : wstate) : option bytes :=
  match s with
  | SWrite t | SClose t _ | SChmod t | SRename t | SCleanup t => Some t
  | SErr l => l
  | SCreate | SOk => None
  end.

(* what the environment decides for one step: kill the writer before (for write: in the middle of) its next call;
   make the call fail; the random part of the temp name; how many bytes a failing/killed write got out *)
Record choice := { c_kill : bool; c_fault : bool; c_rand : bytes; c_len : nat }.

Definition goto (w : writer) (s : wstate) : writer := {| w_buf := w_buf w; w_st := s; w_dead := false |}.
Definition killed (w : writer) : writer := {| w_buf := w_buf w; w_st := w_st w; w_dead := true |}.

Definition wstep (d : dir) (w : writer) (c : choice) : dir * writer :=
  if w_dead w then (d, w) else
  match w_st w with
  | SCreate =>
    if c_kill c then (d, killed w)
    else if c_fault c then (d, goto w (SErr None))            (* TempFile failed: nothing to remove *)
    else let t := tmp_name (c_rand c) in
         match lookup t d with
         | Some _ => (d, w)                                    (* EEXIST: TempFile tries another name *)
         | None => (set t {| f_data := []; f_mode := tmp_mode |} d, goto w (SWrite t))
         end
  | SWrite t =>
    if c_kill c then (append t (firstn (c_len c) (w_buf w)) d, killed w)
    else if c_fault c then (append t (firstn (c_len c) (w_buf w)) d, goto w (SClose t true))
    else (append t (w_buf w) d, goto w (SClose t false))
  | SClose t werr =>
    if c_kill c then (d, killed w)
    else if werr || c_fault c then (d, goto w (SCleanup t))
    else (d, goto w (SChmod t))
  | SChmod t =>
    if c_kill c then (d, killed w)
    else if c_fault c then (d, goto w (SCleanup t))
    else match lookup t d with
         | None => (d, goto w (SCleanup t))                    (* ENOENT *)
         | Some _ => (chmod t gf_resolv_mode d, goto w (SRename t))
         end
  | SRename t =>
    if c_kill c then (d, killed w)
    else if c_fault c then (d, goto w (SCleanup t))
    else match lookup t d with
         | None => (d, goto w (SCleanup t))                    (* ENOENT *)
         | Some f => (set resolv_name f (remove t d), goto w SOk)
         end
  | SCleanup t =>
    if c_kill c then (d, killed w)
    else if c_fault c then (d, goto w (SErr (Some t)))         (* the result of os.Remove is ignored *)
    else (remove t d, goto w (SErr None))
  | SOk | SErr _ => (d, w)
  end.

(* ---- any number of writers ---- *)
Record state := { st_dir : dir; st_ws : list writer }.

Fixpoint upd {A} (i : nat) (x : A) (l : list A) : list A :=
  match l, i with
  | [], _ => []
  | _ :: r, O => x :: r
  | y :: r, S j => y :: upd j x r
  end.

Definition step (st : state) (ic : nat * choice) : state :=
  match nth_error (st_ws st) (fst ic) with
  | None => st
  | Some w => let (d', w') := wstep (st_dir st) w (snd ic) in {| st_dir := d'; st_ws := upd (fst ic) w' (st_ws st) |}
  end.

Definition run (st : state) (sched : list (nat * choice)) : state := fold_left step sched st.
Definition fresh (b : bytes) : writer := {| w_buf := b; w_st := SCreate; w_dead := false |}.
Definition init (d0 : dir) (bufs : list bytes) : state := {| st_dir := d0; st_ws := map fresh bufs |}.

(* ---- the calls a writer issues (compared with strace of the real binary) ----
   [1; mode] name | [2; length] | [3] | [4; mode] name | [5] from to | [6] name ; nothing when dead or finished.
   os.Remove (Go standard library) is unlink and, when that fails, rmdir ([8] name) - which cannot succeed on a regular file
   and has no effect *)
Definition path (n : bytes) : bytes := gf_resolv_dir ++ [47] ++ n.
Definition wevent (w : writer) (c : choice) : list (list N) :=
  if w_dead w || c_kill c then [] else
  match w_st w with
  | SCreate => [[1; tmp_mode]; path (tmp_name (c_rand c))]
  | SWrite t => [[2; N.of_nat (length (w_buf w))]]
  | SClose t _ => [[3]]
  | SChmod t => [[4; gf_resolv_mode]; path t]
  | SRename t => [[5]; path t; path resolv_name]
  | SCleanup t => if c_fault c then [[6]; path t; [8]; path t] else [[6]; path t]
  | SOk | SErr _ => []
  end.

Fixpoint events (st : state) (sched : list (nat * choice)) : list (list N) :=
  match sched with
  | [] => []
  | ic :: r => (match nth_error (st_ws st) (fst ic) with Some w => wevent w (snd ic) | None => [] end) ++ events (step st ic) r
  end.

(* exit of the process: 0 = update returned nil, 1 = returned an error, 2 = killed, 3 = still running *)
Definition outcome (w : writer) : N :=
  if w_dead w then 2 else match w_st w with SOk => 0 | SErr _ => 1 | _ => 3 end.
