(* Model of lib/server/ipdb/clients/clients.go: a Go map with TWO keys per binding pointing at one
   heap object, lazy deletion of expired keys on lookup, and pointer comparison in SetLease.
   Time is Z (nanoseconds on the server's clock). *)
From PSA Require Import model.Bytes.
Open Scope N_scope.

Inductive key := KIp (ip : N) | KDuid (d : bytes).

Definition key_eqb (a b : key) : bool :=
  match a, b with
  | KIp x, KIp y => x =? y
  | KDuid x, KDuid y => bytes_eqb x y
  | _, _ => false
  end.

Record entry := { e_ip : N; e_duid : bytes; e_until : Z; e_perm : bool }.

(* keys: the Go map (first match wins, deletion removes every match); heap: objects by pointer *)
Record store := { keys : list (key * nat); heap : list entry }.

Definition empty_store : store := {| keys := []; heap := [] |}.

Fixpoint kfind (k : key) (m : list (key * nat)) : option nat :=
  match m with
  | [] => None
  | (k', p) :: r => if key_eqb k k' then Some p else kfind k r
  end.

Fixpoint kremove (k : key) (m : list (key * nat)) : list (key * nat) :=
  match m with
  | [] => []
  | (k', p) :: r => if key_eqb k k' then kremove k r else (k', p) :: kremove k r
  end.

Definition kset (k : key) (p : nat) (m : list (key * nat)) : list (key * nat) := (k, p) :: kremove k m.

(* !p.permanent && now.After(p.leasedUntil) *)
Definition expired (now : Z) (e : entry) : bool := negb (e_perm e) && (e_until e <? now)%Z.
Definition live (now : Z) (e : entry) : bool := negb (expired now e).

(* one iteration of the loop in Lookup *)
Definition lookup_key (now : Z) (k : key) (s : store) : option nat * store :=
  match kfind k (keys s) with
  | None => (None, s)
  | Some p =>
    match nth_error (heap s) p with
    | None => (None, s)
    | Some e => if expired now e then (None, {| keys := kremove k (keys s); heap := heap s |}) else (Some p, s)
    end
  end.

Definition lookup (now : Z) (ip : N) (duid : bytes) (s : store) : option nat * option nat * store :=
  let (r1, s1) := lookup_key now (KIp ip) s in
  let (r2, s2) := lookup_key now (KDuid duid) s1 in
  (r1, r2, s2).

(* injectInternal; true = nil error *)
Definition inject (now : Z) (ip : N) (duid : bytes) (until : Z) (perm : bool) (s : store) : bool * store :=
  let '(r1, r2, s') := lookup now ip duid s in
  match r1, r2 with
  | None, None =>
    let p := length (heap s') in
    (true, {| keys := kset (KDuid duid) p (kset (KIp ip) p (keys s'));
              heap := heap s' ++ [{| e_ip := ip; e_duid := duid; e_until := until; e_perm := perm |}] |})
  | _, _ => (false, s')
  end.

Fixpoint set_until (h : list entry) (p : nat) (until : Z) : list entry :=
  match h, p with
  | [], _ => []
  | e :: r, O => {| e_ip := e_ip e; e_duid := e_duid e; e_until := until; e_perm := e_perm e |} :: r
  | e :: r, S q => e :: set_until r q until
  end.

(* SetLease: both keys must resolve to the same object *)
Definition set_lease (now : Z) (ip : N) (duid : bytes) (until : Z) (s : store) : bool * store :=
  let '(r1, r2, s') := lookup now ip duid s in
  match r1, r2 with
  | Some p, Some q => if Nat.eqb p q then (true, {| keys := keys s'; heap := set_until (heap s') p until |}) else (false, s')
  | _, _ => (false, s')
  end.
