(* Model of lib/client/verify/verifyer.go and of the receive filter catchReply in
   lib/client/dclient/netio.go.

   net.IP values: YourIP as produced by dhcpmsg.Decode is never nil, so it is a number; the
   ServerIdentifier of DecodedOptions is nil unless option 54 has exactly four bytes, so it is an
   `option N`; net.IP.Equal on two such values is equality of the options (nil.Equal(nil) = true,
   nil.Equal(x) = false).  The remembered message (lm, lopt) enters only through its YourIP and
   ServerIdentifier.  A lease is a time.Duration: seconds * 1e9 nanoseconds (no overflow below 2^32 s). *)
From PSA Require Import gen.GoFacts model.Bytes model.Layer model.Dhcp spec.SpecClient.
Open Scope N_scope.

Inductive vstate := Failed | Passed | IsNack.

Definition ns_per_second : N := 1000000000.   (* time.Second *)
Definition ipv4_zero : N := 0.                (* net.IPv4zero *)
Definition ipv4_bcast : N := 4294967295.      (* net.IPv4bcast *)

Definition opt_n_eqb (a b : option N) : bool :=
  match a, b with
  | Some x, Some y => x =? y
  | None, None => true
  | _, _ => false
  end.

Definition verify_common (xid : N) (m : dhcp_msg) (opt : decoded_options) : vstate :=
  if negb (d_xid m =? xid) then Failed else
  if (N.of_nat (length (o_routers opt)) =? 0) || (d_yiaddr m =? ipv4_zero) || (d_yiaddr m =? ipv4_bcast) then Failed else
  match o_sid opt with
  | None => Failed
  | Some s =>
    if (s =? ipv4_zero) || (s =? ipv4_bcast) then Failed else
    if o_lease opt * ns_per_second <? gf_client_min_lease_ns then Failed else
    Passed
  end.

Definition verify_offer (xid : N) (m : dhcp_msg) (opt : decoded_options) : vstate :=
  if negb (o_msgtype opt =? gf_dhcpmsg_MsgTypeOffer) then Failed else verify_common xid m opt.

Definition verify_gen_ack (last_yiaddr : N) (last_sid : option N) (xid : N) (vrfysi : bool)
                          (m : dhcp_msg) (opt : decoded_options) : vstate :=
  if o_msgtype opt =? gf_dhcpmsg_MsgTypeNack then IsNack else
  if negb (o_msgtype opt =? gf_dhcpmsg_MsgTypeAck) then Failed else
  if negb (d_yiaddr m =? last_yiaddr) then Failed else
  if vrfysi && negb (opt_n_eqb (o_sid opt) last_sid) then Failed else
  verify_common xid m opt.

(* VerifyOffer / VerifySelectingAck / VerifyRenewingAck / VerifyRebindingAck *)
Definition verifier (w : wait) : dhcp_msg -> decoded_options -> vstate :=
  match w_kind w with
  | KOffer => verify_offer (w_xid w)
  | KSelecting => verify_gen_ack (w_yiaddr w) (w_sid w) (w_xid w) true
  | KRenewing => verify_gen_ack (w_yiaddr w) (w_sid w) (w_xid w) true
  | KRebinding => verify_gen_ack (w_yiaddr w) (w_sid w) (w_xid w) false
  end.

(* what one received packet does to a catchReply loop: RxIgnore = `continue` *)
Inductive rx :=
| RxIgnore
| RxAccept (m : dhcp_msg) (o : decoded_options)     (* return *msg, opts, nil *)
| RxNack (m : dhcp_msg) (o : decoded_options)       (* return *msg, opts, errWasNack *)
| RxPanic.

(* pkt = buff[0:nr], the bytes read from the socket *)
Definition catch_reply (own_mac : bytes) (w : wait) (pkt : bytes) : rx :=
  match decode_ipv4 pkt with
  | Panic => RxPanic
  | Err => RxIgnore
  | Ok v4 =>
    if negb (ip_proto v4 =? gf_client_listen_proto) then RxIgnore else
    match decode_udp (ip_data v4) with
    | Panic => RxPanic
    | Err => RxIgnore
    | Ok u =>
      if negb (udp_dport u =? gf_client_listen_port) then RxIgnore else
      match dhcp_decode (udp_data u) with
      | Panic => RxPanic
      | Err => RxIgnore
      | Ok m =>
        if negb (bytes_eqb (d_chaddr m) own_mac) then RxIgnore else
        let opts := decode_options (d_options m) in
        match verifier w m opts with
        | Passed => RxAccept m opts
        | IsNack => RxNack m opts
        | Failed => RxIgnore
        end
      end
    end
  end.

(* the loop over the packets that arrive: the first one that is not ignored ends it *)
Fixpoint catch_loop (own_mac : bytes) (w : wait) (pkts : list bytes) : N * rx :=
  match pkts with
  | [] => (0, RxIgnore)
  | p :: r => match catch_reply own_mac w p with
              | RxIgnore => let (i, x) := catch_loop own_mac w r in (i + 1, x)
              | x => (0, x)
              end
  end.
