(* Uniform, executable entry point used by the correspondence check: every case
   is (tag, list of number lists) -> list of number lists.  All decoding of
   arguments and encoding of results is done here, inside Coq, so that the
   OCaml driver contains no logic and the same cases can be re-evaluated with
   vm_compute in the kernel. *)
From PSA Require Import model.Bytes model.Checksum model.Layer model.Dhcp model.Clients model.Ipdb model.IpdbCheck spec.SpecCodec spec.SpecTable spec.SpecIpdb model.Server spec.Monitors.
From PSA Require Import gen.GoFacts model.Sanitize model.Resolv spec.SpecResolv.
From PSA Require spec.WireHyps.
From PSA Require Import model.Config spec.SpecConfig.
From PSA Require Import model.Client spec.MonitorC15 spec.SpecClientHistory.
From PSA Require Import spec.SpecClient model.ClientRx model.Tmpl.
From PSA Require Import model.Fs spec.SpecFs.
From PSA Require model.Res.
Open Scope N_scope.

Definition arg (args : list (list N)) (i : nat) : list N := nth i args [].
Definition argn (args : list (list N)) (i j : nat) : N := nth j (arg args i) 0.

Definition enc_res {A} (r : res A) (f : A -> list (list N)) : list (list N) :=
  match r with Ok a => [0] :: f a | Err => [[1]] | Panic => [[2]] end.

Definition b2n (b : bool) : N := if b then 1 else 0.

Definition enc_ipv4 (p : ipv4) : list (list N) :=
  [[ip_id p; ip_flags p; ip_ttl p; ip_proto p; ip_csum p; ip_src p; ip_dst p]; ip_data p].

Fixpoint l_eqb (a b : list N) : bool := match a, b with [], [] => true | x :: a0, y :: b0 => (x =? y) && l_eqb a0 b0 | _, _ => false end.

Definition dispatch_c13 (tag : N) (a : list (list N)) : list (list N) :=
  match tag with
  | 1301 => enc_res (ipv4_assemble {| ip_id := argn a 0 0; ip_flags := argn a 0 1; ip_ttl := argn a 0 2;
                                       ip_proto := argn a 0 3; ip_csum := 0; ip_src := argn a 0 4; ip_dst := argn a 0 5;
                                       ip_data := arg a 1 |}) (fun b => [b])
  | 1302 => enc_res (decode_ipv4 (arg a 0)) enc_ipv4
  | 1303 => [udp_assemble {| udp_sport := argn a 0 0; udp_dport := argn a 0 1; udp_data := arg a 1 |}]
  | 1304 => enc_res (decode_udp (arg a 0)) (fun u => [[udp_sport u; udp_dport u]; udp_data u])
  | 1305 => [arp_assemble {| arp_sip := argn a 0 0; arp_tip := argn a 0 1; arp_op := argn a 0 2;
                             arp_smac := arg a 1; arp_tmac := arg a 2 |}]
  | 1306 => enc_res (decode_arp (arg a 0)) (fun p => [[arp_sip p; arp_tip p; arp_op p]; arp_smac p; arp_tmac p])
  (* monitors: the specification evaluated on bytes the implementation produced *)
  | 1310 => [[b2n (ipv4_hdr_ok (arg a 0))]]
  | 1311 => [[b2n (udp_ok (argn a 0 0) (argn a 0 1) (arg a 1))]]
  (* what was assembled for a payload that fits a datagram reads back, by offset (RFC 768 / 791), as what was put in *)
  | 1312 => let u := arg a 2 in
            [[b2n (udp_wellformed u && (udp_srcport u =? argn a 0 0) && (udp_dstport u =? argn a 0 1) && bytes_eqb (udp_payload u) (arg a 1))]]
  | 1313 => let p := arg a 2 in
            [[b2n (ipv4_wellformed p && (ip_ihl p =? 20) && (ip_protocol p =? argn a 0 0) && (ip_source p =? argn a 0 1) &&
                   (ip_destination p =? argn a 0 2) && (nth0 p 8 =? argn a 0 3) &&
                   (* the UDP checksum (octets 6-7 of a protocol-17 payload) is filled in while assembling; tag 1311 judges it *)
                   (if argn a 0 0 =? 17 then bytes_eqb (firstn 6 (ip_payload p)) (firstn 6 (arg a 1)) && bytes_eqb (skipn 8 (ip_payload p)) (skipn 8 (arg a 1))
                                             && (len (ip_payload p) =? len (arg a 1))
                    else bytes_eqb (ip_payload p) (arg a 1)))]]
  (* round trip as observed: what the decoder returned for an assembled packet (second list; empty = refused) equals what was put in *)
  | 1314 => [[b2n (l_eqb (arg a 0) (arg a 1) && bytes_eqb (arg a 2) (arg a 3))]]
  (* strictness as observed (the clause "reject any packet whose length fields disagree with the bytes supplied and never expose bytes
     outside it", read off the decoder's answer; the right-hand sides are those of C13_udp_strict / C13_ipv4_strict):
     input; [accepted; ...]; payload handed out *)
  | 1315 => let b := arg a 0 in
            [[b2n ((argn a 1 0 =? 0) ||
                   (8 <=? len b) && (be16 (nth 4 b 0) (nth 5 b 0) =? len b) && bytes_eqb (arg a 2) (skipn 8 b) &&
                   (argn a 1 1 =? be16 (nth 0 b 0) (nth 1 b 0)) && (argn a 1 2 =? be16 (nth 2 b 0) (nth 3 b 0)))]]
  | 1316 => let b := arg a 0 in let ihl := nth 0 b 0 mod 16 * 4 in
            [[b2n ((argn a 1 0 =? 0) ||
                   (nth 0 b 0 / 16 =? 4) && (20 <=? ihl) && (ihl <=? len b) && (be16 (nth 2 b 0) (nth 3 b 0) =? len b) &&
                   bytes_eqb (arg a 2) (skipn (N.to_nat ihl) b))]]
  | _ => [[99]]
  end.

(* ---- C12: DHCP codec ---- *)
Fixpoint enc_dopts (os : list dhcp_opt) : list (list N) :=
  match os with [] => [] | (c, d) :: r => [c] :: d :: enc_dopts r end.
Fixpoint dec_dopts (l : list (list N)) : list dhcp_opt :=
  match l with c :: d :: r => (nth 0 c 0, d) :: dec_dopts r | _ => [] end.

Definition enc_dhcp (m : dhcp_msg) : list (list N) :=
  [d_op m; d_htype m; d_hops m; d_xid m; d_secs m; d_flags m; d_ciaddr m; d_yiaddr m; d_siaddr m; d_giaddr m; d_cookie m]
  :: d_chaddr m :: d_sname m :: d_file m :: enc_dopts (d_options m).

(* args: fixed fields, chaddr, sname, file, then options as (code, data) pairs *)
Definition dec_dhcp (a : list (list N)) : dhcp_msg :=
  {| d_op := argn a 0 0; d_htype := argn a 0 1; d_hops := argn a 0 2; d_xid := argn a 0 3; d_secs := argn a 0 4;
     d_flags := argn a 0 5; d_ciaddr := argn a 0 6; d_yiaddr := argn a 0 7; d_siaddr := argn a 0 8; d_giaddr := argn a 0 9;
     d_cookie := argn a 0 10; d_chaddr := arg a 1; d_sname := arg a 2; d_file := arg a 3;
     d_options := dec_dopts (skipn 4 a) |}.

Definition enc_optn (o : option N) : list N := match o with Some x => [x] | None => [] end.
Definition enc_decoded (d : decoded_options) : list (list N) :=
  [[o_msgtype d; o_maxsize d; o_mtu d; o_lease d; o_renew d; o_rebind d];
   enc_optn (o_reqip d); enc_optn (o_sid d); enc_optn (o_bcast d);
   match o_mask d with Some m => m | None => [] end;
   o_routers d; o_dns d; o_domain d; o_cid d; o_message d; o_params d].

Definition dispatch_c12 (tag : N) (a : list (list N)) : list (list N) :=
  match tag with
  | 1201 => enc_res (dhcp_decode (arg a 0)) enc_dhcp
  | 1202 => [dhcp_assemble (dec_dhcp a)]
  | 1203 => enc_decoded (decode_options (dec_dopts a))
  (* an encoding is a value: the bytes Assemble returned (copied at once) and the same slice looked at again after later calls *)
  | 1204 => [[b2n (bytes_eqb (arg a 0) (arg a 1))]]
  | _ => [[99]]
  end.

(* ---- C11: lease database histories ---- *)
Definition optn (some v : N) : option N := if some =? 0 then None else Some v.
Definition zt (neg abs_ : N) : Z := if neg =? 0 then Z.of_N abs_ else (- Z.of_N abs_)%Z.

(* every operation is three lists: header, client id, extra *)
Definition dec_hop (h d e : list N) : hop :=
  let g i := nth i h 0 in
  match g 0%nat with
  | 1 => HUpdate (optn (g 1%nat) (g 2%nat)) d (zt (g 3%nat) (g 4%nat))
  | 2 => HLookup d
  | 3 => HAddPerm (optn (g 1%nat) (g 2%nat)) d
  | 4 => HFind (optn (g 1%nat) (g 2%nat)) d e (optn (g 3%nat) (g 4%nat)) (Z.of_N (g 5%nat)) (Z.of_N (g 6%nat))
  | 5 => HAdvance (Z.of_N (g 1%nat))
  | 7 => HHold (optn (g 1%nat) (g 2%nat)) d (zt (g 3%nat) (g 4%nat))
  | 8 => HOffer (optn (g 1%nat) (g 2%nat)) d e (optn (g 3%nat) (g 4%nat)) (Z.of_N (g 5%nat)) (Z.of_N (g 6%nat)) (zt (g 7%nat) (g 8%nat))
  | _ => HInRange (optn (g 1%nat) (g 2%nat))
  end.
Fixpoint dec_hops (l : list (list N)) : list hop :=
  match l with h :: d :: e :: r => dec_hop h d e :: dec_hops r | _ => [] end.

(* config: network, mask, has_range, range begin, range end (some flags), disabled *)
Definition dec_ipdb (c : list N) : option ipdb :=
  let g i := nth i c 0 in
  let x := ipdb_new (g 0%nat) (g 1%nat) in
  let x1 := if g 2%nat =? 0 then Some x else set_dynamic_range x (optn (g 3%nat) (g 4%nat)) (optn (g 5%nat) (g 6%nat)) in
  match x1 with
  | None => None
  | Some y => Some (if g 7%nat =? 0 then y else disable_dynamic y)
  end.

Definition dispatch_c11 (tag : N) (a : list (list N)) : list (list N) :=
  match tag with
  | 1101 => match dec_ipdb (arg a 0) with
            | None => [[0]]
            | Some x => [1; net_from x; net_to x; dyn_from x; dyn_to x] :: hrun x 0%Z (dec_hops (skipn 1 a))
            end
  | 1102 => let (f, t) := from_to (argn a 0 0) (argn a 0 1) in [[f; t]]
  | _ => [[99]]
  end.

(* ---- server histories (C01-C10) ---- *)
Definition LL := list (list N).
Definition hd0 (l : LL) : list N := match l with x :: _ => x | [] => [] end.
Definition n0 (l : list N) (i : nat) : N := nth i l 0.

Fixpoint take_pairs {A} (k : nat) (f : list N -> list N -> A) (l : LL) : list A * LL :=
  match k with
  | O => ([], l)
  | S k' => match l with
            | a :: b :: r => let (xs, rest) := take_pairs k' f r in (f a b :: xs, rest)
            | _ => ([], [])
            end
  end.

Definition take_opts (l : LL) : list dhcp_opt * LL :=
  match l with
  | cnt :: r => take_pairs (N.to_nat (n0 cnt 0)) (fun c d => (n0 c 0, d)) r
  | [] => ([], [])
  end.

Fixpoint take_optables (k : nat) (l : LL) : list (bytes * list dhcp_opt) * LL :=
  match k with
  | O => ([], l)
  | S k' => match l with
            | mac :: r => let (os, r1) := take_opts r in
                          let (xs, r2) := take_optables k' r1 in ((mac, os) :: xs, r2)
            | [] => ([], [])
            end
  end.

Definition dec_round_body (hdr pkt : list N) (l : LL) : round * LL :=
  let narp := N.to_nat (n0 hdr 3) in let nout := N.to_nat (n0 hdr 4) in let nsnap := N.to_nat (n0 hdr 5) in
  let (arps, l1) := take_pairs narp (fun a m => {| ar_ip := n0 a 0; ar_mac := m; ar_delay := Z.of_N (n0 a 1) |}) l in
  let fix outs (k : nat) (l : LL) : list out_frame * LL :=
    match k with
    | O => ([], l)
    | S k' => match l with
              | t :: eth :: p :: r => let (xs, rest) := outs k' r in ({| of_t := Z.of_N (n0 t 0); of_eth := eth; of_pkt := p |} :: xs, rest)
              | _ => ([], [])
              end
    end in
  let (os, l2) := outs nout l1 in
  let (sn, l3) := take_pairs nsnap (fun a d => {| sn_ip := n0 a 0; sn_duid := d; sn_until := zt (n0 a 3) (n0 a 1); sn_perm := negb (n0 a 2 =? 0) |}) l2 in
  ({| r_t := Z.of_N (n0 hdr 0); r_pkt := pkt; r_arp := arps; r_outs := os; r_tq := Z.of_N (n0 hdr 1);
      r_snap := sn; r_has_snap := negb (n0 hdr 2 =? 0) |}, l3).

Fixpoint dec_rounds (k : nat) (l : LL) : list round :=
  match k with
  | O => []
  | S k' => match l with
            | hdr :: pkt :: r => let (rd, rest) := dec_round_body hdr pkt r in rd :: dec_rounds k' rest
            | _ => []
            end
  end.

(* returns the configuration and the rounds; None if the ipdb configuration is rejected by the model *)
Definition dec_server_case (a : LL) : option (scfg * list round) :=
  let cfg := arg a 0 in
  match dec_ipdb [n0 cfg 2; n0 cfg 3; n0 cfg 4; 1; n0 cfg 5; 1; n0 cfg 6; n0 cfg 7] with
  | None => None
  | Some db =>
    let self_mac := arg a 1 in
    let nstat := N.to_nat (argn a 2 0) in
    let (stats, l1) := take_pairs nstat (fun m i => (m, n0 i 0)) (skipn 3 a) in
    let ntab := N.to_nat (n0 (hd0 l1) 0) in
    let (tabs, l2) := take_optables ntab (tl l1) in
    let (dflt, l3) := take_opts l2 in
    let nr := N.to_nat (n0 (hd0 l3) 0) in
    Some ({| c_self_ip := n0 cfg 0; c_self_mac := self_mac; c_lease := Z.of_N (n0 cfg 1); c_db := db;
             c_statics := stats; c_opts := tabs; c_default_opts := dflt |}, dec_rounds nr (tl l3))
  end.

Definition dispatch_server (tag : N) (a : LL) : LL :=
  match dec_server_case a with
  | None => [[98]]
  | Some (c, rounds) =>
    match tag with
    | 101 => [accept_history c (initial_table c) rounds]
    | 201 => [[b2n (Monitors.mon_C01 c rounds)]]
    | 202 => [[b2n (Monitors.mon_C02 c rounds)]]
    | 203 => [[b2n (Monitors.mon_C03 c rounds)]]
    | 204 => [[b2n (Monitors.mon_C04 c rounds)]]
    | 205 => [[b2n (Monitors.mon_C05 c rounds)]]
    | 206 => [[b2n (Monitors.mon_C06 c rounds)]]
    | 207 => [[b2n (Monitors.mon_C07 c rounds)]]
    | 208 => [[b2n (Monitors.mon_C08 c rounds)]]
    | 210 => [[b2n (Monitors.mon_C10 c rounds)]]
    (* the premises of the wire-level theorems (proofs/WireProofs.v, WireInv.v) hold of this configuration and history *)
    | 220 => [[b2n (WireHyps.wire_hyps c rounds)]]
    | _ => [[99]]
    end
  end.

(* ---- C17: hook environment and resolv.conf ---- *)
Definition enc_file (o : option bytes) : LL := match o with None => [[0]] | Some f => [[1]; f] end.
(* raw interface configuration: router, ip, mask, domain, [mtu sign; mtu abs; lease sign; lease abs], dns... *)
Definition dec_ifconf_v4 (a : LL) : ifconf :=
  ifconfig_v4 (arg a 0) (arg a 1) (arg a 2) (arg a 3) (skipn 5 a) (zt (argn a 4 0) (argn a 4 1)) (zt (argn a 4 2) (argn a 4 3)).
Definition dispatch_c17 (tag : N) (a : LL) : LL :=
  match tag with
  | 1701 => [env_entry (arg a 0) (arg a 1)]
  | 1702 => dump_script_conf {| ic_router := arg a 0; ic_ip := arg a 1; ic_netmask := arg a 2; ic_domain := arg a 3;
                                ic_mtu := arg a 4; ic_lease := arg a 5; ic_dns := skipn 6 a |}
  | 1703 => dump_script_conf (dec_ifconf_v4 a)
  | 1704 => env_entry gf_env_interface_key (arg a 0) :: dump_script_conf (dec_ifconf_v4 (skipn 1 a))
  | 1705 => enc_file (syshook (skipn 1 a))
  | 1707 => [env_entry gf_env_interface_key (arg a 0)]
  | 1706 => enc_file (syshook (dump_script_conf (dec_ifconf_v4 a)))
  (* monitors: the specification evaluated on what the implementation produced *)
  | 1710 => [[b2n (env_var_ok (arg a 0) (arg a 1))]]
  | 1711 => [[b2n (script_env_ok a)]]
  | 1712 => [[b2n (forallb psa_var_ok a)]]
  | 1720 => [[b2n (resolv_ok (arg a 0))]]
  | 1721 => [[b2n (match spec_nameservers (os_environ (skipn 1 a)) with [] => false | _ => true end)]]
  | _ => [[99]]
  end.

(* ---- C18 / C07: configuration ---- *)
(* Layout of a case (number lists):
     0  header [net kind 0 bad/1 v6/2 v4; ip; mask; lease kind 0 bad/1 dur; negative?; |seconds|; |ns remainder|;
                range kind 0 unset/1 bad format/2 bad ip/3 range; a is v4?; a; b is v4?; b; static_only;
                own address present?; own address; number of clients; number of probe hardware addresses]
     1  own hardware address     2  global router [kind; value]     3  global dns (kind, value pairs)
     4  global ntp               5  domain                          6  the configuration as text (for replays; not read)
     then five lists per client: [key kind; ip kind; ip; router kind; router]; hardware address; dns; ntp; host name
     then the probe hardware addresses, then the observation (monitor tags only).
   An address kind is 0 unset / 1 unparsable or IPv6 / 2 IPv4. *)
Definition dec_addr (k v : N) : addr_c := match k with 0 => AUnset | 2 => V4 v | _ => ABad end.
Fixpoint dec_addrs (l : list N) : list addr_c :=
  match l with k :: v :: r => dec_addr k v :: dec_addrs r | _ => [] end.

Definition dec_client (h mac dns ntp host : list N) : client_c :=
  {| k_key := if n0 h 0 =? 0 then BadMac else Mac mac; k_ip := dec_addr (n0 h 1) (n0 h 2);
     k_router := dec_addr (n0 h 3) (n0 h 4); k_dns := dec_addrs dns; k_ntp := dec_addrs ntp; k_hostname := host |}.

Fixpoint dec_clients (k : nat) (l : LL) : list client_c * LL :=
  match k with
  | O => ([], l)
  | S k' => match l with
            | h :: mac :: dns :: ntp :: host :: r => let (cs, rest) := dec_clients k' r in (dec_client h mac dns ntp host :: cs, rest)
            | _ => ([], [])
            end
  end.

Record cfg_case := { cc_cfg : config; cc_own : option N; cc_own_mac : bytes; cc_probes : list bytes; cc_obs : LL }.

Definition dec_cfg_case (a : LL) : cfg_case :=
  let h := arg a 0 in
  let g i := n0 h i in
  let ns := (Z.of_N (g 5%nat) * 1000000000 + Z.of_N (g 6%nat))%Z in
  let (cs, rest) := dec_clients (N.to_nat (g 15%nat)) (skipn 7 a) in
  let np := N.to_nat (g 16%nat) in
  {| cc_cfg := {| g_network := match g 0%nat with 0 => NetBad | 1 => NetV6 | _ => Net4 (g 1%nat) (g 2%nat) end;
                  g_lease := if g 3%nat =? 0 then LeaseBad else Dur (if g 4%nat =? 0 then ns else (- ns)%Z);
                  g_router := dec_addr (argn a 2 0) (argn a 2 1); g_dns := dec_addrs (arg a 3); g_ntp := dec_addrs (arg a 4);
                  g_domain := arg a 5;
                  g_range := match g 7%nat with
                             | 0 => RUnset | 1 => RBadFormat | 2 => RBadIP
                             | _ => Range (optn (g 8%nat) (g 9%nat)) (optn (g 10%nat) (g 11%nat)) end;
                  g_static_only := negb (g 12%nat =? 0);
                  g_clients := cs |};
     cc_own := optn (g 13%nat) (g 14%nat); cc_own_mac := arg a 1;
     cc_probes := firstn np rest; cc_obs := skipn np rest |}.

Definition enc_binding (e : entry) : LL := [[e_ip e; b2n (e_perm e)]; e_duid e].
Definition enc_optlist (os : list dhcp_opt) : LL := [N.of_nat (length os)] :: enc_dopts os.

Definition enc_state (s : server_state) (probes : list bytes) : LL :=
  let x := s_db s in
  let t := sort_by_ip (s_table s) in
  [net_from x; net_to x; dyn_from x; dyn_to x; N.of_nat (length t)]
  :: flat_map enc_binding t ++ flat_map (fun m => enc_optlist (effective_options s m)) probes.

(* observation of one construction: [accepted; netFrom; netTo; dynFrom; dynTo; bindings] then the bindings
   (sorted by address) then one option list per probe *)
Fixpoint dec_bindings (k : nat) (l : LL) : table * LL :=
  match k with
  | O => ([], l)
  | S k' => match l with
            | h :: d :: r => let (xs, rest) := dec_bindings k' r in
                             ({| e_ip := n0 h 0; e_duid := d; e_until := 0%Z; e_perm := negb (n0 h 1 =? 0) |} :: xs, rest)
            | _ => ([], [])
            end
  end.
Fixpoint dec_optlists (k : nat) (l : LL) : list (list dhcp_opt) :=
  match k with
  | O => []
  | S k' => let (os, rest) := take_opts l in os :: dec_optlists k' rest
  end.

Fixpoint all2 {A B} (f : A -> B -> bool) (a : list A) (b : list B) : bool :=
  match a, b with
  | [], [] => true
  | x :: a', y :: b' => f x y && all2 f a' b'
  | _, _ => false
  end.

Fixpoint nlist_eqb (a b : list N) : bool :=
  match a, b with
  | [], [] => true
  | x :: a', y :: b' => (x =? y) && nlist_eqb a' b'
  | _, _ => false
  end.

Definition dispatch_c18 (tag : N) (a : LL) : LL :=
  let cc := dec_cfg_case a in
  let c := cc_cfg cc in
  match tag with
  (* correspondence: verdict, ranges, bindings and the options of every probe *)
  | 1801 => enc_res (new_server c (cc_own cc) (cc_own_mac cc)) (fun s => enc_state s (cc_probes cc))
  (* correspondence for one probe: verdict and options *)
  | 1802 => enc_res (new_server c (cc_own cc) (cc_own_mac cc))
                    (fun s => match cc_probes cc with m :: _ => enc_optlist (effective_options s m) | [] => [] end)
  (* monitor C18 on one construction: [verdict as the specification demands; ranges and bindings as expected;
     options of every probe as expected] *)
  | 1810 =>
    let h := hd0 (cc_obs cc) in
    let accepted := negb (n0 h 0 =? 0) in
    let (bs, rest) := dec_bindings (N.to_nat (n0 h 5)) (tl (cc_obs cc)) in
    let ols := dec_optlists (length (cc_probes cc)) rest in
    [[b2n (Bool.eqb accepted (valid_config_b c (cc_own cc) (cc_own_mac cc)));
      b2n (negb accepted || mon_C18 c (cc_own cc) (cc_own_mac cc) true (n0 h 1, n0 h 2, n0 h 3, n0 h 4) bs
           || negb (valid_config_b c (cc_own cc) (cc_own_mac cc)));
      b2n (negb accepted || all2 (fun m os => opts_eqb os (expected_options c m)) (cc_probes cc) ols)]]
  (* monitor C18, verdict only (the real binary started on the text form of the configuration): [started?] *)
  | 1812 => [[b2n (Bool.eqb (negb (n0 (hd0 (cc_obs cc)) 0 =? 0)) (valid_config_b c (cc_own cc) (cc_own_mac cc)))]]
  (* monitor determinism: every construction of one configuration was observed alike *)
  | 1811 => [[b2n (match cc_obs cc with [] => true | x :: r => forallb (nlist_eqb x) r end)]]
  (* monitor C07 for one probe: observation = option list, OFFER payload, ACK payload *)
  | 1820 =>
    match cc_probes cc, cc_own cc with
    | m :: _, Some self =>
      let (os, rest) := take_opts (cc_obs cc) in
      [[b2n (mon_C07 c self m os (arg rest 0) (arg rest 1))]]
    | _, _ => [[0]]
    end
  | _ => [[99]]
  end.

(* ---- C15: client automaton scripts ---- *)
(* each event is five lists: header, mask, routers, dns, domain.
   header = [kind; cancelled; ...]:
     1 exchange: pre; outcome (0 accept 1 nak 2 timeout 3 cancel); dt; yiaddr; sid; has_mask; mtu; lease; t1; t2   (durations in ns)
     2 arp check: outcome (0 none 1 own 2 foreign 3 cancelled); dt
     3 setiface: ok; has_cancel; c        4 sleep: has_cancel; c        5 purge *)
Definition dec_cevent (h mask routers dns domain : list N) : cevent * bool :=
  let g i := nth i h 0 in
  let z i := Z.of_N (g i) in
  let ev :=
    match g 0%nat with
    | 1 => EExchange (z 2%nat)
             (match g 3%nat with
              | 0 => XAccept (z 4%nat) {| li_yiaddr := g 5%nat; li_sid := g 6%nat; li_mask := if g 7%nat =? 0 then None else Some mask;
                                          li_routers := routers; li_dns := dns; li_domain := domain; li_mtu := g 8%nat;
                                          li_lease := z 9%nat; li_t1 := z 10%nat; li_t2 := z 11%nat |}
              | 1 => XNak (z 4%nat)
              | 2 => XTimeout
              | _ => XCancel (z 4%nat)
              end)
    | 2 => EArp (match g 2%nat with 0 => ANone | 1 => AOwn (z 3%nat) | 2 => AForeign (z 3%nat) | _ => ACancelled (z 3%nat) end)
    | 3 => ESetIface (negb (g 2%nat =? 0)) (if g 3%nat =? 0 then None else Some (z 4%nat))
    | 4 => ESleep (if g 2%nat =? 0 then None else Some (z 3%nat))
    | _ => EPurge
    end in
  (ev, negb (g 1%nat =? 0)).

Fixpoint dec_cevents (l : LL) : list (cevent * bool) :=
  match l with
  | h :: m :: r :: d :: dom :: rest => dec_cevent h m r d dom :: dec_cevents rest
  | _ => []
  end.

Definition zn (z : Z) : N := Z.to_N z.
Definition enc_action (a : action) : list N :=
  match a with
  | AUnconfigure t => [1; zn t]
  | AUp t => [2; zn t]
  | ASetIface t c ok => [3; zn t; b2n ok; nc_ip c; (match nc_router c with Some _ => 1 | None => 0 end);
                          (match nc_router c with Some r => r | None => 0 end); nc_mtu c; zn (nc_lease c); len (nc_mask c)]
                        ++ nc_mask c ++ [len (nc_dns c)] ++ nc_dns c ++ [len (nc_domain c)] ++ nc_domain c
  | AExchange t k => [4; zn t; k]
  | ACrash t => [5; zn t]
  | AReturn t => [6; zn t]
  end.

(* the harness's record with instants (monitor 1510): header fields beyond those of dec_cevent:
   exchange: 12 = instant the exchange began, 13 = its kind on the wire; ARP check / sleep: 4 = instant; setiface: 5; purge: 2 *)
Definition dec_oev (h mask routers dns domain : list N) : oev :=
  let (ev, c) := dec_cevent h mask routers dns domain in
  let g i := nth i h 0 in
  let ti := match g 0%nat with 1 => 12%nat | 2 => 4%nat | 3 => 5%nat | 4 => 4%nat | _ => 2%nat end in
  {| oe_ev := ev; oe_cancel := c; oe_t := Z.of_N (g ti); oe_kind := match g 0%nat with 1 => g 13%nat | _ => 0 end |}.
Fixpoint dec_oevs (l : LL) : list oev :=
  match l with
  | h :: m :: r :: d :: dom :: rest => dec_oev h m r d dom :: dec_oevs rest
  | _ => []
  end.
(* an observed action as written by the harness (the inverse of enc_action) *)
Definition dec_action (x : list N) : action :=
  let g i := nth i x 0 in
  let t := Z.of_N (g 1%nat) in
  match g 0%nat with
  | 1 => AUnconfigure t
  | 2 => AUp t
  | 3 => let ml := N.to_nat (g 8%nat) in
         let mask := firstn ml (skipn 9 x) in
         let r1 := skipn (9 + ml) x in
         let dl := N.to_nat (nth 0 r1 0) in
         let dns := firstn dl (skipn 1 r1) in
         let r2 := skipn (1 + dl) r1 in
         let dom := firstn (N.to_nat (nth 0 r2 0)) (skipn 1 r2) in
         ASetIface t {| nc_ip := g 3%nat; nc_mask := mask; nc_router := if g 4%nat =? 0 then None else Some (g 5%nat);
                        nc_mtu := g 6%nat; nc_dns := dns; nc_domain := dom; nc_lease := Z.of_N (g 7%nat) |} (negb (g 2%nat =? 0))
  | 4 => AExchange t (g 2%nat)
  | 5 => ACrash t
  | _ => AReturn t
  end.
(* number of observed actions, then the actions, then the record *)
Definition c15_observed (a : LL) : list action * LL :=
  let n := N.to_nat (argn a 0 2) in (map dec_action (firstn n (skipn 1 a)), skipn (1 + n) a).

Definition dispatch_c15 (tag : N) (a : LL) : LL :=
  match tag with
  (* monitor: [croute; horizon; number of actions], the observed actions, the record with instants *)
  | 1510 => let (acts, evs) := c15_observed a in
            match mon_C15 (negb (argn a 0 0 =? 0)) (Z.of_N (argn a 0 1)) (dec_oevs evs) acts with
            | [] => [[1]]
            | bad => [0 :: bad]
            end
  | 1501 => map enc_action (filter (fun x => match x with
                                             | AReturn _ => false
                                             | AUnconfigure t | AUp t | ASetIface t _ _ | AExchange t _ | ACrash t => (t <=? Z.of_N (argn a 0 1))%Z
                                             end)
                             (run_script (negb (argn a 0 0 =? 0)) initial_client (dec_cevents (skipn 1 a))))
  (* the same monitor on the model's own history for the script of 1501 (a test of the monitor against the proved automaton) *)
  | 1511 => let croute := negb (argn a 0 0 =? 0) in
            let horizon := Z.of_N (argn a 0 1) in
            let script := dec_cevents (skipn 1 a) in
            let evs := map (fun r => {| oe_ev := sr_ev r; oe_cancel := sr_cancel r; oe_t := c_now (sr_pre r); oe_kind := kind_of (c_phase (sr_pre r)) |})
                           (run_steps croute initial_client script) in
            let acts := filter (fun x => match x with
                                         | AReturn _ => false
                                         | AUnconfigure t | AUp t | ASetIface t _ _ | AExchange t _ | ACrash t => (t <=? horizon)%Z
                                         end) (run_script croute initial_client script) in
            match mon_C15 croute horizon evs acts with
            | [] => [[1]]
            | bad => [0 :: bad]
            end
  (* the deadlines of the bound state for [lease; t1; t2] (ns), as offsets from the instant of binding *)
  | 1503 => let l := {| li_yiaddr := 0; li_sid := 0; li_mask := None; li_routers := []; li_dns := []; li_domain := []; li_mtu := 0;
                        li_lease := Z.of_N (argn a 0 0); li_t1 := Z.of_N (argn a 0 1); li_t2 := Z.of_N (argn a 0 2) |} in
            let '(t1, t2, tx) := deadlines 0 l in [[zn t1; zn t2; zn tx]]
  | 1502 => [map zn (delays (Z.of_N gf_retx_first_ns) (map Z.of_N (arg a 0)))]
  | _ => [[99]]
  end.

(* C10: does a frame reach a handler (run.go's filter) *)
Definition dispatch_c10 (tag : N) (a : LL) : LL :=
  match tag with
  | 1001 => [[b2n (match decode_chain (arg a 0) with Some _ => true | None => false end)]]
  | _ => [[99]]
  end.

(* ---- C14: the client's receive filter; C16: the client's message templates ---- *)
Definition dec_wkind (n : N) : wkind := match n with 0 => KOffer | 1 => KSelecting | 2 => KRenewing | _ => KRebinding end.
(* [kind; xid; yiaddr; has_sid; sid] *)
Definition dec_wait (l : list N) : wait :=
  {| w_kind := dec_wkind (n0 l 0); w_xid := n0 l 1; w_yiaddr := n0 l 2; w_sid := optn (n0 l 3) (n0 l 4) |}.
Definition enc_vstate (v : vstate) : N := match v with Failed => 0 | Passed => 1 | IsNack => 2 end.
Definition enc_rx (x : rx) : LL :=
  match x with
  | RxIgnore => [[0]]
  | RxAccept m o => [1] :: enc_decoded o ++ enc_dhcp m
  | RxNack m o => [2] :: enc_decoded o ++ enc_dhcp m
  | RxPanic => [[3]]
  end.

Definition dispatch_c14 (tag : N) (a : LL) : LL :=
  match tag with
  (* the verify functions: wait, [xid; yiaddr] of the message, then its options *)
  | 1401 => let m := {| d_op := 2; d_htype := 1; d_hops := 0; d_xid := argn a 1 0; d_secs := 0; d_flags := 0; d_ciaddr := 0;
                        d_yiaddr := argn a 1 1; d_siaddr := 0; d_giaddr := 0; d_chaddr := []; d_sname := []; d_file := [];
                        d_cookie := 0; d_options := dec_dopts (skipn 2 a) |} in
            [[enc_vstate (verifier (dec_wait (arg a 0)) m (decode_options (d_options m)))]]
  (* catchReply on one packet: wait, own hardware address, packet *)
  | 1402 => enc_rx (catch_reply (arg a 1) (dec_wait (arg a 0)) (arg a 2))
  (* catchReply on a sequence of packets: index of the packet that ended the loop, and how *)
  | 1403 => let (i, x) := catch_loop (arg a 1) (dec_wait (arg a 0)) (skipn 2 a) in [i] :: enc_rx x
  (* monitors: the specification evaluated on the same inputs *)
  | 1410 => [[b2n (spec_accept (arg a 1) (dec_wait (arg a 0)) (arg a 2))]]
  | 1411 => [[b2n (spec_nack (arg a 1) (dec_wait (arg a 0)) (arg a 2))]]
  | _ => [[99]]
  end.

Definition dec_rkind (n : N) : rkind := match n with 0 => RDiscover | 1 => RSelecting | 2 => RRenewing | _ => RRebinding end.

Definition dispatch_c16 (tag : N) (a : LL) : LL :=
  match tag with
  (* [kind; xid; ip id; leased; server], hardware address *)
  | 1601 => enc_res (request_for (dec_rkind (argn a 0 0)) (argn a 0 1) (argn a 0 2) (arg a 1) (argn a 0 3) (argn a 0 4)) (fun b => [b])
  | 1602 => [[crc32_ieee (arg a 0)]]
  (* monitor: [kind; leased; server], hardware address, the implementation's packet *)
  | 1610 => [[b2n (wellformed_for (dec_rkind (argn a 0 0)) (arg a 1) (argn a 0 1) (argn a 0 2) (arg a 2))]]
  | _ => [[99]]
  end.

(* ---- C20: resolv.conf is replaced atomically ---- *)
(* directory entries travel as name, content, [mode] *)
Fixpoint take_files (n : nat) (a : LL) : dir * LL :=
  match n with
  | O => ([], a)
  | S k => match a with
           | nm :: dt :: md :: r => let (d, rest) := take_files k r in ((nm, {| f_data := dt; f_mode := n0 md 0 |}) :: d, rest)
           | _ => ([], [])
           end
  end.
(* writers travel as [number of environment entries] entry... ; a writer without a valid name server never calls update() *)
Fixpoint take_bufs (n : nat) (a : LL) : list bytes * LL :=
  match n with
  | O => ([], a)
  | S k => match a with
           | cnt :: r => let ne := N.to_nat (n0 cnt 0) in
                         let (bs, rest) := take_bufs k (skipn ne r) in
                         (match syshook (firstn ne r) with Some b => b :: bs | None => bs end, rest)
           | [] => ([], [])
           end
  end.
Fixpoint bytes_leb (a b : bytes) : bool :=
  match a, b with
  | [], _ => true
  | _ :: _, [] => false
  | x :: a', y :: b' => if x <? y then true else if y <? x then false else bytes_leb a' b'
  end.
Fixpoint ins_entry (e : bytes * file) (l : dir) : dir :=
  match l with
  | [] => [e]
  | h :: t => if bytes_leb (fst e) (fst h) then e :: l else h :: ins_entry e t
  end.
Definition sort_dir (d : dir) : dir := fold_right ins_entry [] d.
Definition enc_dir (d : dir) : LL := flat_map (fun e => [fst e; f_data (snd e); [f_mode (snd e)]]) (sort_dir d).
Definition enc_obytes (present : N) (b : bytes) : option bytes := if present =? 0 then None else Some b.

(* one scripted writer: [nenv; ninit; kill_at (0 = never, j+1 = before its j-th step); fault mask over step numbers], random part of the
   temp name, environment, initial directory.  Steps: the writer is scheduled seven times (the longest path has six calls). *)
Definition c20_script (a : LL) : option (state * list (nat * choice)) :=
  let nenv := N.to_nat (argn a 0 0) in
  let ninit := N.to_nat (argn a 0 1) in
  let killat := argn a 0 2 in
  let mask := argn a 0 3 in
  let r := arg a 1 in
  let envp := firstn nenv (skipn 2 a) in
  let (d0, _) := take_files ninit (skipn (2 + nenv) a) in
  match syshook envp with
  | None => None
  | Some buf =>
    Some (init d0 [buf],
          map (fun j => (O, {| c_kill := (killat =? N.of_nat j + 1); c_fault := N.testbit mask (N.of_nat j); c_rand := r; c_len := O |}))
              (seq 0 7))
  end.

Definition dispatch_c20 (tag : N) (a : LL) : LL :=
  match tag with
  (* the calls the writer issues, in order *)
  | 2001 => match c20_script a with None => [[0]] | Some (st, s) => [1] :: events st s end
  (* how it ends and what the directory is afterwards *)
  | 2002 => match c20_script a with
            | None => [[0]]
            | Some (st, s) => let fin := run st s in [1] :: map outcome (st_ws fin) :: enc_dir (st_dir fin)
            end
  (* checks of spec/SpecFs.v on observations of the real directory.
     2010: [nw; initial present; sample present; initial mode; sample mode] initial-content sample-content writers...  (content and mode of one open file)
     2012: the same, content only *)
  | 2010 => let (bufs, _) := take_bufs (N.to_nat (argn a 0 0)) (skipn 3 a) in
            let ob p b m := if p =? 0 then None else Some {| f_data := b; f_mode := m |} in
            [[b2n (sample_ok (ob (argn a 0 1) (arg a 1) (argn a 0 3)) bufs (ob (argn a 0 2) (arg a 2) (argn a 0 4)))]]
  | 2012 => let (bufs, _) := take_bufs (N.to_nat (argn a 0 0)) (skipn 3 a) in
            [[b2n (content_ok (enc_obytes (argn a 0 1) (arg a 1)) bufs (enc_obytes (argn a 0 2) (arg a 2)))]]
  (* 2011: [nw; ninit; nobs; quiescent] writers... initial entries... observed entries... *)
  | 2011 => let (bufs, r1) := take_bufs (N.to_nat (argn a 0 0)) (skipn 1 a) in
            let (d0, r2) := take_files (N.to_nat (argn a 0 1)) r1 in
            let (d, _) := take_files (N.to_nat (argn a 0 2)) r2 in
            [[b2n (if argn a 0 3 =? 0 then dir_ok d0 bufs d else quiet_ok d0 bufs d)]]
  | _ => [[99]]
  end.

(* ---- C19: resource accounting.  arg 0 = flat list of pairs describing the observed history ---- *)
Fixpoint nat_pairs (l : list N) : list (nat * nat) :=
  match l with x :: y :: r => (N.to_nat x, N.to_nat y) :: nat_pairs r | _ => [] end.
Definition res_fuel (evs : list nat) : nat := 64 * (length evs + 4).
Definition dispatch_c19 (tag : N) (a : LL) : LL :=
  let xs := nat_pairs (arg a 0) in
  match tag with
  | 1901 => let evs := Res.obs_server_events xs in [Res.observable (Res.drive (res_fuel evs) (Res.init (Res.obs_server xs)) [] evs)]
  | 1902 => let evs := Res.obs_client_events xs in [Res.observable (Res.drive (res_fuel evs) (Res.init (Res.obs_client xs)) [] evs)]
  | _ => [[99]]
  end.

Definition dispatch (tag : N) (a : list (list N)) : list (list N) :=
  if (1300 <=? tag) && (tag <? 1400) then dispatch_c13 tag a
  else if (1200 <=? tag) && (tag <? 1300) then dispatch_c12 tag a
  else if (1100 <=? tag) && (tag <? 1200) then dispatch_c11 tag a
  else if (100 <=? tag) && (tag <? 1000) then dispatch_server tag a
  else if (1700 <=? tag) && (tag <? 1800) then dispatch_c17 tag a
  else if (1800 <=? tag) && (tag <? 1900) then dispatch_c18 tag a
  else if (1000 <=? tag) && (tag <? 1100) then dispatch_c10 tag a
  else if (1500 <=? tag) && (tag <? 1600) then dispatch_c15 tag a
  else if (1400 <=? tag) && (tag <? 1500) then dispatch_c14 tag a
  else if (1600 <=? tag) && (tag <? 1700) then dispatch_c16 tag a
  else if (2000 <=? tag) && (tag <? 2100) then dispatch_c20 tag a
  else if (1900 <=? tag) && (tag <? 2000) then dispatch_c19 tag a
  else [[99]].
