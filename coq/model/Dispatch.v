(* Uniform, executable entry point used by the correspondence check: every case
   is (tag, list of number lists) -> list of number lists.  All decoding of
   arguments and encoding of results is done here, inside Coq, so that the
   OCaml driver contains no logic and the same cases can be re-evaluated with
   vm_compute in the kernel. *)
From PSA Require Import model.Bytes model.Checksum model.Layer model.Dhcp model.Clients model.Ipdb model.IpdbCheck spec.SpecCodec spec.SpecTable spec.SpecIpdb model.Server spec.Monitors.
From PSA Require Import gen.GoFacts model.Sanitize model.Resolv spec.SpecResolv.
From PSA Require model.Res.
Open Scope N_scope.

Definition arg (args : list (list N)) (i : nat) : list N := nth i args [].
Definition argn (args : list (list N)) (i j : nat) : N := nth j (arg args i) 0.

Definition enc_res {A} (r : res A) (f : A -> list (list N)) : list (list N) :=
  match r with Ok a => [0] :: f a | Err => [[1]] | Panic => [[2]] end.

Definition b2n (b : bool) : N := if b then 1 else 0.

Definition enc_ipv4 (p : ipv4) : list (list N) :=
  [[ip_id p; ip_flags p; ip_ttl p; ip_proto p; ip_csum p; ip_src p; ip_dst p]; ip_data p].

Definition dispatch_c13 (tag : N) (a : list (list N)) : list (list N) :=
  match tag with
  | 1301 => enc_res (ipv4_assemble {| ip_id := argn a 0 0; ip_flags := argn a 0 1; ip_ttl := argn a 0 2;
                                       ip_proto := argn a 0 3; ip_csum := 0; ip_src := argn a 0 4; ip_dst := argn a 0 5;
                                       ip_data := arg a 1 |}) (fun b => [b])
  | 1302 => enc_res (decode_ipv4 (arg a 0)) enc_ipv4
  | 1303 => [udp_assemble {| udp_sport := argn a 0 0; udp_dport := argn a 0 1; udp_data := arg a 1 |}]
  | 1304 => enc_res (decode_udp (arg a 0)) (fun u => [[udp_sport u; udp_dport u]; udp_data u])
  | 1305 => [arp_assemble {| arp_sip := argn a 0 0; arp_tip := argn a 0 1; arp_op := argn a 0 2;
                             arp_smac := arg a 1; arp_tmac := arg a 2 |}]
  | 1306 => enc_res (decode_arp (arg a 0)) (fun p => [[arp_sip p; arp_tip p; arp_op p]; arp_smac p; arp_tmac p])
  (* monitors: the specification evaluated on bytes the implementation produced *)
  | 1310 => [[b2n (ipv4_hdr_ok (arg a 0))]]
  | 1311 => [[b2n (udp_ok (argn a 0 0) (argn a 0 1) (arg a 1))]]
  | _ => [[99]]
  end.

(* ---- C12: DHCP codec ---- *)
Fixpoint enc_dopts (os : list dhcp_opt) : list (list N) :=
  match os with [] => [] | (c, d) :: r => [c] :: d :: enc_dopts r end.
Fixpoint dec_dopts (l : list (list N)) : list dhcp_opt :=
  match l with c :: d :: r => (nth 0 c 0, d) :: dec_dopts r | _ => [] end.

Definition enc_dhcp (m : dhcp_msg) : list (list N) :=
  [d_op m; d_htype m; d_hops m; d_xid m; d_secs m; d_flags m; d_ciaddr m; d_yiaddr m; d_siaddr m; d_giaddr m; d_cookie m]
  :: d_chaddr m :: d_sname m :: d_file m :: enc_dopts (d_options m).

(* args: fixed fields, chaddr, sname, file, then options as (code, data) pairs *)
Definition dec_dhcp (a : list (list N)) : dhcp_msg :=
  {| d_op := argn a 0 0; d_htype := argn a 0 1; d_hops := argn a 0 2; d_xid := argn a 0 3; d_secs := argn a 0 4;
     d_flags := argn a 0 5; d_ciaddr := argn a 0 6; d_yiaddr := argn a 0 7; d_siaddr := argn a 0 8; d_giaddr := argn a 0 9;
     d_cookie := argn a 0 10; d_chaddr := arg a 1; d_sname := arg a 2; d_file := arg a 3;
     d_options := dec_dopts (skipn 4 a) |}.

Definition enc_optn (o : option N) : list N := match o with Some x => [x] | None => [] end.
Definition enc_decoded (d : decoded_options) : list (list N) :=
  [[o_msgtype d; o_maxsize d; o_mtu d; o_lease d; o_renew d; o_rebind d];
   enc_optn (o_reqip d); enc_optn (o_sid d); enc_optn (o_bcast d);
   match o_mask d with Some m => m | None => [] end;
   o_routers d; o_dns d; o_domain d; o_cid d; o_message d; o_params d].

Definition dispatch_c12 (tag : N) (a : list (list N)) : list (list N) :=
  match tag with
  | 1201 => enc_res (dhcp_decode (arg a 0)) enc_dhcp
  | 1202 => [dhcp_assemble (dec_dhcp a)]
  | 1203 => enc_decoded (decode_options (dec_dopts a))
  | _ => [[99]]
  end.

(* ---- C11: lease database histories ---- *)
Definition optn (some v : N) : option N := if some =? 0 then None else Some v.
Definition zt (neg abs_ : N) : Z := if neg =? 0 then Z.of_N abs_ else (- Z.of_N abs_)%Z.

(* every operation is three lists: header, client id, extra *)
Definition dec_hop (h d e : list N) : hop :=
  let g i := nth i h 0 in
  match g 0%nat with
  | 1 => HUpdate (optn (g 1%nat) (g 2%nat)) d (zt (g 3%nat) (g 4%nat))
  | 2 => HLookup d
  | 3 => HAddPerm (optn (g 1%nat) (g 2%nat)) d
  | 4 => HFind (optn (g 1%nat) (g 2%nat)) d e (optn (g 3%nat) (g 4%nat)) (Z.of_N (g 5%nat)) (Z.of_N (g 6%nat))
  | 5 => HAdvance (Z.of_N (g 1%nat))
  | 7 => HHold (optn (g 1%nat) (g 2%nat)) d (zt (g 3%nat) (g 4%nat))
  | 8 => HOffer (optn (g 1%nat) (g 2%nat)) d e (optn (g 3%nat) (g 4%nat)) (Z.of_N (g 5%nat)) (Z.of_N (g 6%nat)) (zt (g 7%nat) (g 8%nat))
  | _ => HInRange (optn (g 1%nat) (g 2%nat))
  end.
Fixpoint dec_hops (l : list (list N)) : list hop :=
  match l with h :: d :: e :: r => dec_hop h d e :: dec_hops r | _ => [] end.

(* config: network, mask, has_range, range begin, range end (some flags), disabled *)
Definition dec_ipdb (c : list N) : option ipdb :=
  let g i := nth i c 0 in
  let x := ipdb_new (g 0%nat) (g 1%nat) in
  let x1 := if g 2%nat =? 0 then Some x else set_dynamic_range x (optn (g 3%nat) (g 4%nat)) (optn (g 5%nat) (g 6%nat)) in
  match x1 with
  | None => None
  | Some y => Some (if g 7%nat =? 0 then y else disable_dynamic y)
  end.

Definition dispatch_c11 (tag : N) (a : list (list N)) : list (list N) :=
  match tag with
  | 1101 => match dec_ipdb (arg a 0) with
            | None => [[0]]
            | Some x => [1; net_from x; net_to x; dyn_from x; dyn_to x] :: hrun x 0%Z (dec_hops (skipn 1 a))
            end
  | 1102 => let (f, t) := from_to (argn a 0 0) (argn a 0 1) in [[f; t]]
  | _ => [[99]]
  end.

(* ---- server histories (C01-C10) ---- *)
Definition LL := list (list N).
Definition hd0 (l : LL) : list N := match l with x :: _ => x | [] => [] end.
Definition n0 (l : list N) (i : nat) : N := nth i l 0.

Fixpoint take_pairs {A} (k : nat) (f : list N -> list N -> A) (l : LL) : list A * LL :=
  match k with
  | O => ([], l)
  | S k' => match l with
            | a :: b :: r => let (xs, rest) := take_pairs k' f r in (f a b :: xs, rest)
            | _ => ([], [])
            end
  end.

Definition take_opts (l : LL) : list dhcp_opt * LL :=
  match l with
  | cnt :: r => take_pairs (N.to_nat (n0 cnt 0)) (fun c d => (n0 c 0, d)) r
  | [] => ([], [])
  end.

Fixpoint take_optables (k : nat) (l : LL) : list (bytes * list dhcp_opt) * LL :=
  match k with
  | O => ([], l)
  | S k' => match l with
            | mac :: r => let (os, r1) := take_opts r in
                          let (xs, r2) := take_optables k' r1 in ((mac, os) :: xs, r2)
            | [] => ([], [])
            end
  end.

Definition dec_round_body (hdr pkt : list N) (l : LL) : round * LL :=
  let narp := N.to_nat (n0 hdr 3) in let nout := N.to_nat (n0 hdr 4) in let nsnap := N.to_nat (n0 hdr 5) in
  let (arps, l1) := take_pairs narp (fun a m => {| ar_ip := n0 a 0; ar_mac := m; ar_delay := Z.of_N (n0 a 1) |}) l in
  let fix outs (k : nat) (l : LL) : list out_frame * LL :=
    match k with
    | O => ([], l)
    | S k' => match l with
              | t :: eth :: p :: r => let (xs, rest) := outs k' r in ({| of_t := Z.of_N (n0 t 0); of_eth := eth; of_pkt := p |} :: xs, rest)
              | _ => ([], [])
              end
    end in
  let (os, l2) := outs nout l1 in
  let (sn, l3) := take_pairs nsnap (fun a d => {| sn_ip := n0 a 0; sn_duid := d; sn_until := zt (n0 a 3) (n0 a 1); sn_perm := negb (n0 a 2 =? 0) |}) l2 in
  ({| r_t := Z.of_N (n0 hdr 0); r_pkt := pkt; r_arp := arps; r_outs := os; r_tq := Z.of_N (n0 hdr 1);
      r_snap := sn; r_has_snap := negb (n0 hdr 2 =? 0) |}, l3).

Fixpoint dec_rounds (k : nat) (l : LL) : list round :=
  match k with
  | O => []
  | S k' => match l with
            | hdr :: pkt :: r => let (rd, rest) := dec_round_body hdr pkt r in rd :: dec_rounds k' rest
            | _ => []
            end
  end.

(* returns the configuration and the rounds; None if the ipdb configuration is rejected by the model *)
Definition dec_server_case (a : LL) : option (scfg * list round) :=
  let cfg := arg a 0 in
  match dec_ipdb [n0 cfg 2; n0 cfg 3; n0 cfg 4; 1; n0 cfg 5; 1; n0 cfg 6; n0 cfg 7] with
  | None => None
  | Some db =>
    let self_mac := arg a 1 in
    let nstat := N.to_nat (argn a 2 0) in
    let (stats, l1) := take_pairs nstat (fun m i => (m, n0 i 0)) (skipn 3 a) in
    let ntab := N.to_nat (n0 (hd0 l1) 0) in
    let (tabs, l2) := take_optables ntab (tl l1) in
    let (dflt, l3) := take_opts l2 in
    let nr := N.to_nat (n0 (hd0 l3) 0) in
    Some ({| c_self_ip := n0 cfg 0; c_self_mac := self_mac; c_lease := Z.of_N (n0 cfg 1); c_db := db;
             c_statics := stats; c_opts := tabs; c_default_opts := dflt |}, dec_rounds nr (tl l3))
  end.

Definition dispatch_server (tag : N) (a : LL) : LL :=
  match dec_server_case a with
  | None => [[98]]
  | Some (c, rounds) =>
    match tag with
    | 101 => [accept_history c (initial_table c) rounds]
    | 201 => [[b2n (mon_C01 c rounds)]]
    | 202 => [[b2n (mon_C02 c rounds)]]
    | 203 => [[b2n (mon_C03 c rounds)]]
    | 204 => [[b2n (mon_C04 c rounds)]]
    | 205 => [[b2n (mon_C05 c rounds)]]
    | 206 => [[b2n (mon_C06 c rounds)]]
    | 207 => [[b2n (mon_C07 c rounds)]]
    | 208 => [[b2n (mon_C08 c rounds)]]
    | 210 => [[b2n (mon_C10 c rounds)]]
    | _ => [[99]]
    end
  end.

(* ---- C17: hook environment and resolv.conf ---- *)
Definition enc_file (o : option bytes) : LL := match o with None => [[0]] | Some f => [[1]; f] end.
(* raw interface configuration: router, ip, mask, domain, [mtu sign; mtu abs; lease sign; lease abs], dns... *)
Definition dec_ifconf_v4 (a : LL) : ifconf :=
  ifconfig_v4 (arg a 0) (arg a 1) (arg a 2) (arg a 3) (skipn 5 a) (zt (argn a 4 0) (argn a 4 1)) (zt (argn a 4 2) (argn a 4 3)).
Definition dispatch_c17 (tag : N) (a : LL) : LL :=
  match tag with
  | 1701 => [env_entry (arg a 0) (arg a 1)]
  | 1702 => dump_script_conf {| ic_router := arg a 0; ic_ip := arg a 1; ic_netmask := arg a 2; ic_domain := arg a 3;
                                ic_mtu := arg a 4; ic_lease := arg a 5; ic_dns := skipn 6 a |}
  | 1703 => dump_script_conf (dec_ifconf_v4 a)
  | 1704 => env_entry gf_env_interface_key (arg a 0) :: dump_script_conf (dec_ifconf_v4 (skipn 1 a))
  | 1705 => enc_file (syshook (skipn 1 a))
  | 1707 => [env_entry gf_env_interface_key (arg a 0)]
  | 1706 => enc_file (syshook (dump_script_conf (dec_ifconf_v4 a)))
  (* monitors: the specification evaluated on what the implementation produced *)
  | 1710 => [[b2n (env_var_ok (arg a 0) (arg a 1))]]
  | 1711 => [[b2n (script_env_ok a)]]
  | 1712 => [[b2n (forallb psa_var_ok a)]]
  | 1720 => [[b2n (resolv_ok (arg a 0))]]
  | 1721 => [[b2n (match spec_nameservers (os_environ (skipn 1 a)) with [] => false | _ => true end)]]
  | _ => [[99]]
  end.

(* ---- C19: resource accounting.  arg 0 = flat list of pairs describing the observed history ---- *)
Fixpoint nat_pairs (l : list N) : list (nat * nat) :=
  match l with x :: y :: r => (N.to_nat x, N.to_nat y) :: nat_pairs r | _ => [] end.
Definition res_fuel (evs : list nat) : nat := 64 * (length evs + 4).
Definition dispatch_c19 (tag : N) (a : LL) : LL :=
  let xs := nat_pairs (arg a 0) in
  match tag with
  | 1901 => let evs := Res.obs_server_events xs in [Res.observable (Res.drive (res_fuel evs) (Res.init (Res.obs_server xs)) [] evs)]
  | 1902 => let evs := Res.obs_client_events xs in [Res.observable (Res.drive (res_fuel evs) (Res.init (Res.obs_client xs)) [] evs)]
  | _ => [[99]]
  end.

Definition dispatch (tag : N) (a : list (list N)) : list (list N) :=
  if (1300 <=? tag) && (tag <? 1400) then dispatch_c13 tag a
  else if (1200 <=? tag) && (tag <? 1300) then dispatch_c12 tag a
  else if (1100 <=? tag) && (tag <? 1200) then dispatch_c11 tag a
  else if (100 <=? tag) && (tag <? 1000) then dispatch_server tag a
  else if (1700 <=? tag) && (tag <? 1800) then dispatch_c17 tag a
  else if (1900 <=? tag) && (tag <? 2000) then dispatch_c19 tag a
  else [[99]].
