(* Model of lib/dhcpmsg/{parse,assemble,optshelper}.go.
   Addresses are 32-bit numbers (a nil net.IP assembles as 0.0.0.0, as in Go).
   Decode rejects hardware-address lengths above 16 (repair F6, see DESIGN.md section 6). *)
From PSA Require Import gen.GoFacts model.Bytes.
Open Scope N_scope.

Definition dhcp_opt := (N * bytes)%type.

Record dhcp_msg := {
  d_op : N; d_htype : N; d_hops : N; d_xid : N; d_secs : N; d_flags : N;
  d_ciaddr : N; d_yiaddr : N; d_siaddr : N; d_giaddr : N;
  d_chaddr : bytes; d_sname : bytes; d_file : bytes; d_cookie : N;
  d_options : list dhcp_opt }.

Definition dhcp_min_len : N := gf_dhcpmsg_dhcpMinLen.
Definition opt_end : N := gf_dhcpmsg_OptEnd.
Definition opt_pad : N := gf_dhcpmsg_OptPadding.

(* the option loop of Decode over the bytes from offset 240 on.
   None = "truncated options" (the loop ended without having seen the end option). *)
Fixpoint parse_opts (fuel : nat) (b : bytes) : option (list dhcp_opt) :=
  match fuel with
  | O => None
  | S f =>
    match b with
    | [] => None
    | c :: r =>
      if c =? opt_pad then parse_opts f r
      else if c =? opt_end then Some []
      else match r with
           | [] => None
           | l :: r' =>
             if len r' <? l then None
             else match parse_opts f (skipn (N.to_nat l) r') with
                  | Some os => Some ((c, firstn (N.to_nat l) r') :: os)
                  | None => None
                  end
           end
    end
  end.

Definition max_hlen : N := 16.

Definition dhcp_decode (b : bytes) : res dhcp_msg :=
  if len b <? dhcp_min_len then Err else
  do hlen <- idx b 2;
  if max_hlen <? hlen then Err else
  do op <- idx b 0; do ht <- idx b 1; do hops <- idx b 3;
  do xid <- get32 b 4; do secs <- get16 b 8; do fl <- get16 b 10;
  do cookie <- get32 b 236;
  do ci <- get32 b 12; do yi <- get32 b 16; do si <- get32 b 20; do gi <- get32 b 24;
  do mac <- slice b 28 (28 + hlen);
  do sn <- slice b 44 108;
  do fi <- slice b 108 236;
  do rest <- slice_from b dhcp_min_len;
  match parse_opts (length rest) rest with
  | None => Err
  | Some os =>
    Ok {| d_op := op; d_htype := ht; d_hops := hops; d_xid := xid; d_secs := secs; d_flags := fl;
          d_ciaddr := ci; d_yiaddr := yi; d_siaddr := si; d_giaddr := gi;
          d_chaddr := mac; d_sname := sn; d_file := fi; d_cookie := cookie; d_options := os |}
  end.

(* Assemble: copy(buf[28:44], mac) keeps at most 16 bytes; the length byte and every
   option length byte are truncated to 8 bits as the Go conversions do *)
Definition pad_to (n : nat) (b : bytes) : bytes := firstn n (b ++ zeros n).

Definition enc_opt (o : dhcp_opt) : bytes := fst o :: u8 (len (snd o)) :: snd o.

Definition dhcp_assemble (m : dhcp_msg) : bytes :=
  [d_op m; d_htype m; u8 (len (d_chaddr m)); d_hops m] ++ put32 (d_xid m) ++ put16 (d_secs m) ++ put16 (d_flags m)
  ++ put32 (d_ciaddr m) ++ put32 (d_yiaddr m) ++ put32 (d_siaddr m) ++ put32 (d_giaddr m)
  ++ pad_to 16 (d_chaddr m) ++ pad_to 64 (d_sname m) ++ pad_to 128 (d_file m) ++ put32 (d_cookie m)
  ++ flat_map enc_opt (d_options m)
  ++ (match d_options m with [] => [] | _ => [opt_end] end).

(* ---- typed option accessors (optshelper.go) ---- *)

Record decoded_options := {
  o_msgtype : N; o_maxsize : N; o_mtu : N;
  o_reqip : option N; o_sid : option N; o_bcast : option N;
  o_mask : option bytes;
  o_routers : list N; o_dns : list N;
  o_lease : N; o_renew : N; o_rebind : N;          (* seconds *)
  o_domain : bytes; o_cid : bytes; o_message : bytes; o_params : bytes }.

Definition empty_opts : decoded_options :=
  {| o_msgtype := 0; o_maxsize := 0; o_mtu := 0; o_reqip := None; o_sid := None; o_bcast := None; o_mask := None;
     o_routers := []; o_dns := []; o_lease := 0; o_renew := 0; o_rebind := 0;
     o_domain := []; o_cid := []; o_message := []; o_params := [] |}.

Definition to_u8 (x : bytes) : N := match x with [a] => a | _ => 0 end.
Definition to_u16 (x : bytes) : N := match x with [a; b] => be16 a b | _ => 0 end.
Definition to_u32 (x : bytes) : N := match x with [a; b; c; d] => be32 a b c d | _ => 0 end.

Fixpoint v4s (x : bytes) : option (list N) :=
  match x with
  | [] => Some []
  | a :: b :: c :: d :: r => match v4s r with Some l => Some (be32 a b c d :: l) | None => None end
  | _ => None
  end.
(* toV4A: nil unless len >= 4 and len % 4 == 0 *)
Definition to_v4a (x : bytes) : list N := match v4s x with Some l => l | None => [] end.
(* toV4: an address only if there is exactly one *)
Definition to_v4 (x : bytes) : option N := match to_v4a x with [a] => Some a | _ => None end.
Definition to_mask (x : bytes) : option bytes := match x with [_; _; _; _] => Some x | _ => None end.

Definition set_opt (d : decoded_options) (o : dhcp_opt) : decoded_options :=
  let (c, x) := o in
  if c =? gf_dhcpmsg_OptSubnetMask then
    {| o_msgtype := o_msgtype d; o_maxsize := o_maxsize d; o_mtu := o_mtu d; o_reqip := o_reqip d; o_sid := o_sid d; o_bcast := o_bcast d;
       o_mask := to_mask x; o_routers := o_routers d; o_dns := o_dns d; o_lease := o_lease d; o_renew := o_renew d; o_rebind := o_rebind d;
       o_domain := o_domain d; o_cid := o_cid d; o_message := o_message d; o_params := o_params d |}
  else if c =? gf_dhcpmsg_OptRouter then
    {| o_msgtype := o_msgtype d; o_maxsize := o_maxsize d; o_mtu := o_mtu d; o_reqip := o_reqip d; o_sid := o_sid d; o_bcast := o_bcast d;
       o_mask := o_mask d; o_routers := to_v4a x; o_dns := o_dns d; o_lease := o_lease d; o_renew := o_renew d; o_rebind := o_rebind d;
       o_domain := o_domain d; o_cid := o_cid d; o_message := o_message d; o_params := o_params d |}
  else if c =? gf_dhcpmsg_OptDNS then
    {| o_msgtype := o_msgtype d; o_maxsize := o_maxsize d; o_mtu := o_mtu d; o_reqip := o_reqip d; o_sid := o_sid d; o_bcast := o_bcast d;
       o_mask := o_mask d; o_routers := o_routers d; o_dns := to_v4a x; o_lease := o_lease d; o_renew := o_renew d; o_rebind := o_rebind d;
       o_domain := o_domain d; o_cid := o_cid d; o_message := o_message d; o_params := o_params d |}
  else if c =? gf_dhcpmsg_OptDomainName then
    {| o_msgtype := o_msgtype d; o_maxsize := o_maxsize d; o_mtu := o_mtu d; o_reqip := o_reqip d; o_sid := o_sid d; o_bcast := o_bcast d;
       o_mask := o_mask d; o_routers := o_routers d; o_dns := o_dns d; o_lease := o_lease d; o_renew := o_renew d; o_rebind := o_rebind d;
       o_domain := x; o_cid := o_cid d; o_message := o_message d; o_params := o_params d |}
  else if c =? gf_dhcpmsg_OptBroadcastAddress then
    {| o_msgtype := o_msgtype d; o_maxsize := o_maxsize d; o_mtu := o_mtu d; o_reqip := o_reqip d; o_sid := o_sid d; o_bcast := to_v4 x;
       o_mask := o_mask d; o_routers := o_routers d; o_dns := o_dns d; o_lease := o_lease d; o_renew := o_renew d; o_rebind := o_rebind d;
       o_domain := o_domain d; o_cid := o_cid d; o_message := o_message d; o_params := o_params d |}
  else if c =? gf_dhcpmsg_OptRequestedIP then
    {| o_msgtype := o_msgtype d; o_maxsize := o_maxsize d; o_mtu := o_mtu d; o_reqip := to_v4 x; o_sid := o_sid d; o_bcast := o_bcast d;
       o_mask := o_mask d; o_routers := o_routers d; o_dns := o_dns d; o_lease := o_lease d; o_renew := o_renew d; o_rebind := o_rebind d;
       o_domain := o_domain d; o_cid := o_cid d; o_message := o_message d; o_params := o_params d |}
  else if c =? gf_dhcpmsg_OptIPAddressLeaseDuration then
    {| o_msgtype := o_msgtype d; o_maxsize := o_maxsize d; o_mtu := o_mtu d; o_reqip := o_reqip d; o_sid := o_sid d; o_bcast := o_bcast d;
       o_mask := o_mask d; o_routers := o_routers d; o_dns := o_dns d; o_lease := to_u32 x; o_renew := o_renew d; o_rebind := o_rebind d;
       o_domain := o_domain d; o_cid := o_cid d; o_message := o_message d; o_params := o_params d |}
  else if c =? gf_dhcpmsg_OptMessageType then
    {| o_msgtype := to_u8 x; o_maxsize := o_maxsize d; o_mtu := o_mtu d; o_reqip := o_reqip d; o_sid := o_sid d; o_bcast := o_bcast d;
       o_mask := o_mask d; o_routers := o_routers d; o_dns := o_dns d; o_lease := o_lease d; o_renew := o_renew d; o_rebind := o_rebind d;
       o_domain := o_domain d; o_cid := o_cid d; o_message := o_message d; o_params := o_params d |}
  else if c =? gf_dhcpmsg_OptMaxMessageSize then
    {| o_msgtype := o_msgtype d; o_maxsize := to_u16 x; o_mtu := o_mtu d; o_reqip := o_reqip d; o_sid := o_sid d; o_bcast := o_bcast d;
       o_mask := o_mask d; o_routers := o_routers d; o_dns := o_dns d; o_lease := o_lease d; o_renew := o_renew d; o_rebind := o_rebind d;
       o_domain := o_domain d; o_cid := o_cid d; o_message := o_message d; o_params := o_params d |}
  else if c =? gf_dhcpmsg_OptInterfaceMTU then
    {| o_msgtype := o_msgtype d; o_maxsize := o_maxsize d; o_mtu := to_u16 x; o_reqip := o_reqip d; o_sid := o_sid d; o_bcast := o_bcast d;
       o_mask := o_mask d; o_routers := o_routers d; o_dns := o_dns d; o_lease := o_lease d; o_renew := o_renew d; o_rebind := o_rebind d;
       o_domain := o_domain d; o_cid := o_cid d; o_message := o_message d; o_params := o_params d |}
  else if c =? gf_dhcpmsg_OptServerIdentifier then
    {| o_msgtype := o_msgtype d; o_maxsize := o_maxsize d; o_mtu := o_mtu d; o_reqip := o_reqip d; o_sid := to_v4 x; o_bcast := o_bcast d;
       o_mask := o_mask d; o_routers := o_routers d; o_dns := o_dns d; o_lease := o_lease d; o_renew := o_renew d; o_rebind := o_rebind d;
       o_domain := o_domain d; o_cid := o_cid d; o_message := o_message d; o_params := o_params d |}
  else if c =? gf_dhcpmsg_OptMessage then
    {| o_msgtype := o_msgtype d; o_maxsize := o_maxsize d; o_mtu := o_mtu d; o_reqip := o_reqip d; o_sid := o_sid d; o_bcast := o_bcast d;
       o_mask := o_mask d; o_routers := o_routers d; o_dns := o_dns d; o_lease := o_lease d; o_renew := o_renew d; o_rebind := o_rebind d;
       o_domain := o_domain d; o_cid := o_cid d; o_message := x; o_params := o_params d |}
  else if c =? gf_dhcpmsg_OptRenewalDuration then
    {| o_msgtype := o_msgtype d; o_maxsize := o_maxsize d; o_mtu := o_mtu d; o_reqip := o_reqip d; o_sid := o_sid d; o_bcast := o_bcast d;
       o_mask := o_mask d; o_routers := o_routers d; o_dns := o_dns d; o_lease := o_lease d; o_renew := to_u32 x; o_rebind := o_rebind d;
       o_domain := o_domain d; o_cid := o_cid d; o_message := o_message d; o_params := o_params d |}
  else if c =? gf_dhcpmsg_OptRebindDuration then
    {| o_msgtype := o_msgtype d; o_maxsize := o_maxsize d; o_mtu := o_mtu d; o_reqip := o_reqip d; o_sid := o_sid d; o_bcast := o_bcast d;
       o_mask := o_mask d; o_routers := o_routers d; o_dns := o_dns d; o_lease := o_lease d; o_renew := o_renew d; o_rebind := to_u32 x;
       o_domain := o_domain d; o_cid := o_cid d; o_message := o_message d; o_params := o_params d |}
  else if c =? gf_dhcpmsg_OptClientIdentifier then
    {| o_msgtype := o_msgtype d; o_maxsize := o_maxsize d; o_mtu := o_mtu d; o_reqip := o_reqip d; o_sid := o_sid d; o_bcast := o_bcast d;
       o_mask := o_mask d; o_routers := o_routers d; o_dns := o_dns d; o_lease := o_lease d; o_renew := o_renew d; o_rebind := o_rebind d;
       o_domain := o_domain d; o_cid := x; o_message := o_message d; o_params := o_params d |}
  else if c =? gf_dhcpmsg_OptParametersList then
    {| o_msgtype := o_msgtype d; o_maxsize := o_maxsize d; o_mtu := o_mtu d; o_reqip := o_reqip d; o_sid := o_sid d; o_bcast := o_bcast d;
       o_mask := o_mask d; o_routers := o_routers d; o_dns := o_dns d; o_lease := o_lease d; o_renew := o_renew d; o_rebind := o_rebind d;
       o_domain := o_domain d; o_cid := o_cid d; o_message := o_message d; o_params := x |}
  else d.

Definition decode_options (os : list dhcp_opt) : decoded_options := fold_left set_opt os empty_opts.
