(* Model of lib/client/msgtmpl/{tmpl,request}.go and of dhcpmsg.OptionClientIdentifier.

   Addresses are 32-bit numbers (the Go code is called with non-nil IPv4 addresses: the accepted
   YourIP / ServerIdentifier).  The transaction id and the IP identification are random in the Go code:
   they are arguments here (oracle), read back from the produced packet by the harness. *)
From PSA Require Import gen.GoFacts model.Bytes model.Checksum model.Layer model.Dhcp spec.SpecClient.
Open Scope N_scope.

(* hash/crc32.ChecksumIEEE: reflected CRC-32, polynomial 0xEDB88320, bit by bit *)
Definition crc_poly : N := 3988292384.
Definition crc_step (c : N) : N := if N.odd c then N.lxor (c / 2) crc_poly else c / 2.
Definition crc_byte (c b : N) : N := Nat.iter 8 crc_step (N.lxor c b).
Definition crc32_ieee (b : bytes) : N := u32 (N.lxor (fold_left crc_byte b 4294967295) 4294967295).

(* OptionClientIdentifier: id := make([]byte, 15); id[1:5] = IAID; copy(id[9:15], hwaddr); id[0] = 0xff; id[6] = 3; id[8] = 1 *)
Definition client_identifier (iaid : N) (hw : bytes) : bytes :=
  [255] ++ put32 iaid ++ [0; 3; 0; 1] ++ pad_to 6 hw.

Definition req_msgtype (k : rkind) : N :=
  match k with RDiscover => gf_dhcpmsg_MsgTypeDiscover | _ => gf_dhcpmsg_MsgTypeRequest end.
(* sourceIP (also ciaddr) and destinationIP passed to request() by the four constructors of tmpl.go *)
Definition req_src (k : rkind) (leased : N) : N :=
  match k with RDiscover | RSelecting => 0 | RRenewing | RRebinding => leased end.
Definition req_dst (k : rkind) (server : N) : N :=
  match k with RRenewing => server | _ => 4294967295 end.

(* msgopts in the order of request.go: 53, 61, 57, 55, then 50 and 54 when the arguments are non-nil *)
Definition req_options (k : rkind) (iaid : N) (hw : bytes) (leased server : N) : list dhcp_opt :=
  [(gf_dhcpmsg_OptMessageType, [req_msgtype k]);
   (gf_dhcpmsg_OptClientIdentifier, client_identifier iaid hw);
   (gf_dhcpmsg_OptMaxMessageSize, put16 gf_max_msg_size);
   (gf_dhcpmsg_OptParametersList, gf_param_list)]
  ++ match k with
     | RSelecting => [(gf_dhcpmsg_OptRequestedIP, put32 leased); (gf_dhcpmsg_OptServerIdentifier, put32 server)]
     | _ => []
     end.

Definition req_msg (k : rkind) (xid iaid : N) (hw : bytes) (leased server : N) : dhcp_msg :=
  {| d_op := gf_dhcpmsg_OpRequest; d_htype := gf_dhcpmsg_HtypeETHER; d_hops := 0; d_xid := xid; d_secs := 0; d_flags := 0;
     d_ciaddr := req_src k leased; d_yiaddr := 0; d_siaddr := 0; d_giaddr := 0;
     d_chaddr := hw; d_sname := zeros 64; d_file := zeros 128; d_cookie := gf_dhcpmsg_DHCPCookie;
     d_options := req_options k iaid hw leased server |}.

Definition req_udp (k : rkind) (xid iaid : N) (hw : bytes) (leased server : N) : udp :=
  {| udp_sport := gf_client_sport; udp_dport := gf_client_dport; udp_data := dhcp_assemble (req_msg k xid iaid hw leased server) |}.

Definition req_ip (k : rkind) (xid ipid iaid : N) (hw : bytes) (leased server : N) : ipv4 :=
  {| ip_id := ipid; ip_flags := 0; ip_ttl := gf_client_ttl; ip_proto := gf_layer_ProtoUDP; ip_csum := 0;
     ip_src := req_src k leased; ip_dst := req_dst k server;
     ip_data := udp_assemble (req_udp k xid iaid hw leased server) |}.

(* tmpl.request with an arbitrary IAID *)
Definition request (k : rkind) (xid ipid iaid : N) (hw : bytes) (leased server : N) : res bytes :=
  ipv4_assemble (req_ip k xid ipid iaid hw leased server).

(* ... and with the IAID the Go code computes *)
Definition request_for (k : rkind) (xid ipid : N) (hw : bytes) (leased server : N) : res bytes :=
  request k xid ipid (crc32_ieee hw) hw leased server.
