(* Model of lib/layer/checksum.go *)
From PSA Require Import model.Bytes.
Open Scope N_scope.

(* the two summing loops of ipv4csum, with the uint32 wrap written out *)
Fixpoint sum_words (b : bytes) (acc : N) : N :=
  match b with
  | hi :: lo :: r => sum_words r (u32 (u32 (acc + hi * 256) + lo))
  | [hi] => u32 (acc + hi * 256)
  | [] => acc
  end.

(* for acc > 0xFFFF { acc = (acc >> 16) + uint32(uint16(acc)) } *)
Fixpoint fold_loop (fuel : nat) (acc : N) : option N :=
  if acc <=? 65535 then Some acc else
  match fuel with
  | O => None
  | S f => fold_loop f (u32 (acc / 65536 + acc mod 65536))
  end.

Definition fold16 (acc : N) : N :=
  match fold_loop 3 acc with Some a => a | None => 0 end.

(* ^uint16(acc) *)
Definition not16 (a : N) : N := 65535 - a mod 65536.

Definition ipv4csum (b : bytes) (acc : N) : N := not16 (fold16 (sum_words b acc)).

(* pseudohdrcsum(b): b is the whole IP packet; indexes 9, 12..19 *)
Definition pseudohdrcsum (b : bytes) : res N :=
  do p <- idx b 9;
  do s0 <- idx b 12; do s1 <- idx b 13; do s2 <- idx b 14; do s3 <- idx b 15;
  do d0 <- idx b 16; do d1 <- idx b 17; do d2 <- idx b 18; do d3 <- idx b 19;
  Ok (u32 (u32 (u32 (u32 (p + u32 ((s0 + s2) * 256)) + (s1 + s3)) + u32 ((d0 + d2) * 256)) + (d1 + d3))).

Definition udp4csum (hlen : N) (b : bytes) : res N :=
  let length := u32 (len b - hlen) in
  do ph <- pseudohdrcsum b;
  let csum := u32 (u32 (ph + length mod 65536) + length / 65536) in
  do body <- slice_from b hlen;
  Ok (ipv4csum body csum).

(* setV4Checksum(b): returns the modified buffer (error value ignored by the caller) *)
Definition set_v4_checksum (b : bytes) : res bytes :=
  match b with
  | [] => Ok b
  | b0 :: _ =>
    if negb (b0 / 16 =? 4) then Ok b else
    let ihl := u8 (b0 mod 16 * 4) in
    if (ihl <? 20) || (len b <? ihl) then Ok b else
    do hdr <- slice b 0 ihl;
    let c := ipv4csum hdr 0 in
    let b1 := overwrite b 10 (put16 c) in
    do proto <- idx b1 9;
    if (proto =? 17) && (ihl + 8 <=? len b1) then
      do uc <- udp4csum ihl b1;
      Ok (overwrite b1 (N.to_nat (ihl + 6)) (put16 uc))
    else Ok b1
  end.
