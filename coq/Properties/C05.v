(* C05 — Offers are held, leases last as long as advertised, addresses are stable.  Statements only. *)
From PSA Require Import gen.GoFacts model.Bytes model.Clients model.Ipdb model.Dhcp spec.SpecTable spec.SpecIpdb model.Server
  proofs.TableProofs proofs.LeaseProofs proofs.ServerProofs.
From PSA Require Import spec.Monitors.
From PSA Require Import spec.WireHyps spec.WireExample proofs.WireProofs proofs.WireInv proofs.WireLease proofs.WireSnap proofs.WireHypsProofs proofs.WireExampleProofs spec.WireExample2 proofs.WireExample2Proofs.
Open Scope N_scope.

(* (i) once an address is offered (held), the REQUEST for it arriving within the hold is acknowledged: the
   lookup returns the offered address and the final UpdateClient succeeds - whatever operations other handlers
   performed in between (they are part of the arbitrary history that led to (t, now, log)) *)
Theorem C05_held_offer_is_acknowledged : forall L x now t log ev,
  LInv L now t log -> In ev log -> (now <= g_t ev + g_dur ev)%Z -> to_uip x (Some (g_ip ev)) = Some (g_ip ev) ->
  t_lookup_by_duid now (g_duid ev) t = Some (g_ip ev) /\
  fst (t_update_client x now (Some (g_ip ev)) (g_duid ev) L t) = true.
Proof. exact (fun L x now t log ev I Hin Hle Hu => conj (lookup_during_reservation L now t log ev I Hin Hle) (ack_succeeds L x now t log ev I Hin Hle Hu)). Qed.
Print Assumptions C05_held_offer_is_acknowledged.

(* (ii) once acknowledged the address stays that client's until the lease has elapsed since its LATEST
   acknowledgement; no operation by it or anyone else shortens it (LInv is preserved by every history:
   C01_exclusive_over_all_interleavings), and every new search by the client returns the same address *)
Theorem C05_lease_is_stable : forall L now t log ev, LInv L now t log -> In ev log -> (now <= g_t ev + g_dur ev)%Z ->
  bound_ip now (g_duid ev) t = Some (g_ip ev) /\ bound_duid now (g_ip ev) t = Some (g_duid ev).
Proof. exact reservation_holds. Qed.
Print Assumptions C05_lease_is_stable.

Theorem C05_same_address_again : forall x perm c pr now sg d t a,
  bound_ip now d t = Some a -> t_find_ip x perm c pr now sg d t = (Some a, now).
Proof. exact find_ip_own. Qed.
Print Assumptions C05_same_address_again.

Theorem C05_invariant_over_all_histories : forall L x h, (0 <= L)%Z -> forall t now log,
  sv_ok L h -> LInv L now t log -> excl_log log ->
  let '(t', now', log') := g_run x t now h log in LInv L now' t' log' /\ excl_log log' /\ (now <= now')%Z.
Proof. exact lease_invariants. Qed.
Print Assumptions C05_invariant_over_all_histories.

(* (iii) silence for lack of addresses only when no eligible address is left ... *)
Theorem C05_silent_only_when_exhausted : forall x perm c pr now sg d t now',
  wf_ranges x -> (forall a, (0 <= snd (pr a))%Z) -> (forall j, c j = false) ->
  (forall a, dyn_from x <= a <= dyn_to x -> In (a - dyn_from x) perm) ->
  bound_ip now d t = None -> dynamic_disabled x = false ->
  t_find_ip x perm c pr now sg d t = (None, now') ->
  forall a, dyn_from x <= a <= dyn_to x -> uip_valid a = true -> fst (pr a) = true -> find_live now (KIp a) t 0 <> None.
Proof. exact find_ip_complete. Qed.
Print Assumptions C05_silent_only_when_exhausted.

(* (iv) ... and a client asking for a specific free address of the pool is offered that address *)
Theorem C05_suggested_address : forall x perm c pr now sg d t n,
  wf_ranges x -> to_uip x sg = Some n -> dyn_from x <= n <= dyn_to x -> dynamic_disabled x = false ->
  bound_ip now d t = None -> c 0%nat = false -> eligible pr now t n ->
  t_find_ip x perm c pr now sg d t = (Some n, (now + snd (pr n))%Z).
Proof. exact find_ip_suggested. Qed.
Print Assumptions C05_suggested_address.

(* expired bindings are invisible, hence replaceable *)
Theorem C05_expired_reclaimed : forall now t p e k,
  nth_error t p = Some e -> e_perm e = false -> (e_until e < now)%Z -> find_live now k t 0 <> Some p.
Proof. exact expired_invisible. Qed.
Print Assumptions C05_expired_reclaimed.

(* (ii) on the wire-level acceptor: a round accepted with a single reply that is not the NAK is the ACK for the client's own
   binding, and the table afterwards holds that address for that client until the instant of the ACK plus the
   configured lease - the duration whose whole seconds the ACK advertises (C07).  This is the model side of the monitor
   clause ack_reserved, which reads the same fact off the implementation's table listing after every ACK. *)
Theorem C05_acknowledged_is_reserved : forall c t r src dst m o t' f,
  unique_live (r_t r) t ->
  accept_request c t r src dst m o = RAcc t' -> r_outs r = [f] -> frame_eqb f (reply_nak c m) = false ->
  exists lease n, bound_ip (r_t r) (get_duid c (d_chaddr m) (o_cid o)) t = Some lease /\
    frame_eqb f (reply_lease c GoFacts.gf_dhcpmsg_MsgTypeAck m lease) = true /\ to_uip (c_db c) (Some lease) = Some n /\
    exists p e, nth_error t' p = Some e /\ e_ip e = n /\ e_duid e = get_duid c (d_chaddr m) (o_cid o) /\
                e_until e = (of_t f + c_lease c)%Z.
Proof. exact accepted_ack_is_reserved. Qed.
Print Assumptions C05_acknowledged_is_reserved.

Theorem C05_update_reserves : forall x now ip d ttl t t' n, unique_live now t -> to_uip x ip = Some n ->
  t_update_client x now ip d ttl t = (true, t') ->
  exists p e, nth_error t' p = Some e /\ e_ip e = n /\ e_duid e = d /\ e_until e = (now + ttl)%Z.
Proof. exact update_reserves. Qed.
Print Assumptions C05_update_reserves.

(* ON THE WIRE, over whole histories: on every accepted history mon_C05 holds, i.e. all six clauses of the property as the
   monitors read them off frames and table listings:
   (i)  c05_hold: a selecting REQUEST for the address last offered to that client, arriving within the hold time counted from
        the OFFER's transmission, with no foreign ARP answer for it, is acknowledged with that address in its round;
   (ii) c05_scan: after an ACK of x to a client every OFFER/ACK to that client sent before the lease has elapsed since the
        arrival of that request carries x;
   ack_reserved: the listing after an ACK shows the address bound at least until the advertised lease time after the ACK left;
   c05_monotone: a binding or pending offer listed after one round is listed after the next - same address, same client, running at
        least as long - unless it has run out ("no message from it or from anyone else shortens that");
   c05_suggest: a broadcast DISCOVER of an unreserved, unbound client that suggests a host address of the dynamic range which the listing
        before the packet shows free and no foreign host answers for is, if answered, offered exactly that address;
   c05_silence: a broadcast DISCOVER of an unreserved, unbound client goes unanswered only if no address of the dynamic range is a
        host address, free in the listing before the packet and not answered for by a foreign host in this round.
   The acceptor (model/Server.v) is what every run compares the implementation with, round by round (tag 101); the premises
   are boolean conditions (spec/WireHyps.v) evaluated on every generated history (tag 220, Cxx_premises below); the rounds are
   sequential with a table listing after each (interleavings: the theorems over operation histories above). *)
Theorem C05_on_the_wire : forall c h, cfg_wire_ok c -> cfg_srv_ok c -> cfg_lease_ok c -> durations_ok c -> Forall wf_round h ->
  snap_times 0%Z h -> accepted c h -> mon_C05 c h = true.
Proof. exact accepted_history_c05. Qed.
Print Assumptions C05_on_the_wire.

Theorem C05_premises : forall c h, wire_hyps c h = true -> wire_premises c h.
Proof. exact wire_hyps_premises. Qed.
Print Assumptions C05_premises.

(* the premises hold of, and the acceptor accepts, a recorded history of the real server (OFFER, ACK, NAK on an ARP conflict, silent rounds) *)
Theorem C05_wire_nonvacuous : exists c h, wire_example = Some (c, h) /\ wire_premises c h /\ accepted c h /\
  length h = 6%nat /\ length (events c h) = 2%nat /\ length (flat_map r_outs h) = 3%nat.
Proof. exact wire_example_full. Qed.
Print Assumptions C05_wire_nonvacuous.

(* ... and of a history in which two clients compete for one address and time decides (spec/WireExample2.v) *)
Theorem C05_wire_nonvacuous_two_clients : exists c h, wire_example2 = Some (c, h) /\ wire_premises c h /\ accepted c h /\
  length h = 7%nat /\ length (events c h) = 4%nat /\ distinct_pids (events c h) = 2%nat /\ length (flat_map r_outs h) = 6%nat.
Proof. exact wire_example2_full. Qed.
Print Assumptions C05_wire_nonvacuous_two_clients.

Example C05_nonvacuous :
  let x := {| net_from := 10; net_to := 20; dyn_from := 12; dyn_to := 13; st := empty_store |} in
  let h := [(0%Z, OpOffer [0; 1] (fun _ => false) (fun _ => (true, 600%Z)) None [1] 15%Z)] in
  let '(t, now, log) := g_run x [] 0%Z h [] in
  log = [{| g_ip := 12; g_duid := [1]; g_t := 600%Z; g_dur := 15%Z; g_ack := false |}] /\
  fst (t_update_client x 610%Z (Some 12) [1] 60%Z t) = true /\ t_lookup_by_duid 610%Z [1] t = Some 12 /\
  t_lookup_by_duid 616%Z [1] t = None.
Proof. vm_compute. repeat split. Qed.
