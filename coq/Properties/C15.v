(* C15 — The client configures only acknowledged parameters, drops them on NAK or expiry (partial: timers are
   the runtime's; the automaton and its deadlines are proved).  Statements only. *)
From PSA Require Import gen.GoFacts model.Bytes model.Client proofs.ClientProofs spec.SpecClientHistory proofs.ClientHistory.
Open Scope Z_scope.

(* The interface is configured (and the hook told) only in the ifconfig state, with exactly the address, netmask,
   router, MTU, DNS, domain and lease of the stored reply ... *)
Theorem C15_configures_stored_reply : forall croute s e s' acts t c ok,
  phase_step croute s e = (s', acts) -> In (ASetIface t c ok) acts ->
  c_phase s = PIfconfig /\ c = build_netconf croute (c_last s) /\ t = c_now s.
Proof. exact setiface_is_last_reply. Qed.
Print Assumptions C15_configures_stored_reply.

(* ... the stored reply changes only when an exchange ends with an accepted reply, to exactly that reply (so it
   always is the most recent accepted ACK/OFFER; C14 says which replies are accepted) ... *)
Theorem C15_stored_reply_is_latest_accepted : forall croute s e s' acts,
  phase_step croute s e = (s', acts) ->
  c_last s' = c_last s \/ exists pre dt l, e = EExchange pre (XAccept dt l) /\ c_last s' = l.
Proof. exact last_changes_only_on_accept. Qed.
Print Assumptions C15_stored_reply_is_latest_accepted.

(* ... with the router withheld when default-route configuration is disabled and the class default netmask when
   none (or no canonical one) is supplied *)
Theorem C15_netconf_fields : forall croute l,
  let c := build_netconf croute l in
  nc_ip c = li_yiaddr l /\ nc_mtu c = li_mtu l /\ nc_dns c = li_dns l /\ nc_domain c = li_domain l /\ nc_lease c = li_lease l /\
  (croute = false -> nc_router c = None) /\ (croute = true -> nc_router c = Some (hd 0%N (li_routers l))) /\
  (forall m, li_mask l = Some m -> canonical_mask m = true -> nc_mask c = m) /\
  ((li_mask l = None \/ exists m, li_mask l = Some m /\ canonical_mask m = false) -> nc_mask c = default_mask (li_yiaddr l)).
Proof. exact netconf_fields. Qed.
Print Assumptions C15_netconf_fields.

(* only after an ARP probe found no other owner: ifconfig is entered only from the ARP check with no foreign
   answer, and the ARP check only from an accepted reply *)
Theorem C15_configured_only_after_clean_arp : forall croute s e s' acts,
  phase_step croute s e = (s', acts) -> c_phase s' = PIfconfig -> c_phase s <> PIfconfig ->
  c_phase s = PArp /\ exists o, e = EArp o /\ (forall dt, o <> AForeign dt).
Proof. exact ifconfig_only_after_clean_arp. Qed.
Print Assumptions C15_configured_only_after_clean_arp.

Theorem C15_arp_check_only_after_accept : forall croute s e s' acts,
  phase_step croute s e = (s', acts) -> c_phase s' = PArp -> c_phase s <> PArp ->
  exists pre dt l, e = EExchange pre (XAccept dt l) /\ c_last s' = l /\ (c_phase s = PSelect \/ c_phase s = PRenew \/ c_phase s = PRebind).
Proof. exact arp_only_after_accept. Qed.
Print Assumptions C15_arp_check_only_after_accept.

(* on a conflict the client removes its configuration and starts over *)
Theorem C15_conflict_unconfigures : forall croute s dt s' acts,
  c_phase s = PArp -> phase_step croute s (EArp (AForeign dt)) = (s', acts) ->
  acts = [AUnconfigure (c_now s + dt)] /\ c_phase s' = PPurge /\ c_now s' = c_now s + dt + panic_reset.
Proof. exact conflict_unconfigures. Qed.
Print Assumptions C15_conflict_unconfigures.

Theorem C15_purge_restarts_discovery : forall croute s e s' acts,
  c_phase s = PPurge -> phase_step croute s e = (s', acts) ->
  acts = [AUnconfigure (c_now s); AUp (c_now s)] /\ c_phase s' = PDiscover.
Proof. exact purge_restarts. Qed.
Print Assumptions C15_purge_restarts_discovery.

Theorem C15_setiface_failure_unconfigures : forall croute s ca s' acts,
  c_phase s = PIfconfig -> phase_step croute s (ESetIface false ca) = (s', acts) ->
  acts = [ASetIface (c_now s) (build_netconf croute (c_last s)) false; AUnconfigure (c_now s)] /\ c_phase s' = PPurge.
Proof. exact setiface_failure_unconfigures. Qed.
Print Assumptions C15_setiface_failure_unconfigures.

(* T1 <= T2 <= expiry for every lease; server-supplied values are used exactly when 60 s < T1 < T2 < lease,
   otherwise 50 % and 87.5 % *)
Theorem C15_deadlines_ordered : forall now l, 0 <= li_lease l ->
  let '(t1, t2, tx) := deadlines now l in now <= t1 /\ t1 <= t2 /\ t2 <= tx /\ tx = now + li_lease l.
Proof. exact deadlines_ordered. Qed.
Print Assumptions C15_deadlines_ordered.

(* the 50 % / 87.5 % fallback is computed in float64 by the code; the model follows it bit by bit (round53): exact up to
   two weeks, and never off by more than the 2^53-th part for any duration *)
Theorem C15_fallback_exact : forall lease, 0 <= lease -> lease * 7 < 2 ^ 53 ->
  half lease = lease / 2 /\ seven_eighths lease = lease * 7 / 8.
Proof. exact fallback_exact. Qed.
Print Assumptions C15_fallback_exact.

Theorem C15_float_rounding_bounds : forall n, 0 <= n -> n - n / 2 ^ 53 <= round53 n <= n + n / 2 ^ 53.
Proof. exact round53_bounds. Qed.
Print Assumptions C15_float_rounding_bounds.

Theorem C15_fallback_ordered : forall lease, 0 <= lease ->
  0 <= half lease /\ half lease <= seven_eighths lease /\ seven_eighths lease <= lease.
Proof. exact fallback_ordered. Qed.
Print Assumptions C15_fallback_ordered.

Theorem C15_server_times_iff_consistent : forall l,
  use_server_times l = true <-> (Z.of_N gf_min_t1_ns < li_t1 l /\ li_t1 l < li_t2 l /\ li_t2 l < li_lease l).
Proof. exact use_server_times_iff. Qed.
Print Assumptions C15_server_times_iff_consistent.

Theorem C15_deadline_values : forall now l,
  deadlines now l = (now + li_t1 l, now + li_t2 l, now + li_lease l) <->
  (use_server_times l = true \/ (li_t1 l = half (li_lease l) /\ li_t2 l = seven_eighths (li_lease l))).
Proof. exact deadlines_server_values. Qed.
Print Assumptions C15_deadline_values.

(* bound: renewal starts at T1; renewing: ACK -> ARP check, NAK -> purge, nothing until T2 -> rebinding;
   rebinding: ACK -> ARP check, NAK or nothing until expiry -> purge (which removes the address and rediscovers) *)
Theorem C15_renewal_at_t1 : forall croute s s' acts, c_phase s = PBound ->
  phase_step croute s (ESleep None) = (s', acts) ->
  let '(t1, t2, tx) := deadlines (c_now s) (c_last s) in
  c_phase s' = PRenew /\ c_now s' = Z.max (c_now s) t1 /\ c_t1 s' = t1 /\ c_t2 s' = t2 /\ c_tx s' = tx /\ acts = [].
Proof. exact bound_wakes_at_t1. Qed.
Print Assumptions C15_renewal_at_t1.

Theorem C15_renewing : forall croute s pre o s' acts, c_phase s = PRenew ->
  phase_step croute s (EExchange pre o) = (s', acts) ->
  match o with
  | XAccept dt l => c_phase s' = PArp /\ c_last s' = l
  | XNak dt => c_phase s' = PPurge /\ c_now s' = c_now s + dt
  | XTimeout => c_phase s' = PRebind /\ c_now s' = Z.max (c_now s) (c_t2 s)
  | XCancel dt => c_phase s' = PRebind
  end /\ (forall t k, In (AExchange t k) acts -> k = 3%N /\ t = c_now s + pre).
Proof. exact renew_outcomes. Qed.
Print Assumptions C15_renewing.

Theorem C15_rebinding : forall croute s pre o s' acts, c_phase s = PRebind ->
  phase_step croute s (EExchange pre o) = (s', acts) ->
  match o with
  | XAccept dt l => c_phase s' = PArp /\ c_last s' = l
  | XNak dt => c_phase s' = PPurge /\ c_now s' = c_now s + dt
  | XTimeout => c_phase s' = PPurge /\ c_now s' = Z.max (c_now s) (c_tx s)
  | XCancel dt => c_phase s' = PPurge
  end.
Proof. exact rebind_outcomes. Qed.
Print Assumptions C15_rebinding.

Theorem C15_renewing_frames_before_t2 : forall croute s pre s' acts t k, c_phase s = PRenew ->
  phase_step croute s (EExchange pre XTimeout) = (s', acts) -> In (AExchange t k) acts -> t < Z.max (c_now s) (c_t2 s).
Proof. exact renew_frames_before_t2. Qed.
Print Assumptions C15_renewing_frames_before_t2.

(* a link-up event forces early re-validation of a held lease *)
Theorem C15_link_up_revalidates : forall s, c_phase s = PBound \/ c_phase s = PRenew \/ c_phase s = PRebind ->
  let s' := resume s in
  c_phase s' = PRebind /\ c_t1 s' = c_now s + resume_deadline /\ c_t2 s' = c_now s + resume_deadline /\
  c_tx s' = c_now s + resume_deadline /\ c_last s' = c_last s.
Proof. exact resume_revalidates. Qed.
Print Assumptions C15_link_up_revalidates.

(* ---- over whole histories (definitions in spec/SpecClientHistory.v) ----
   For every script of outcomes - any replies, timings, ARP answers, configuration failures and link-up events, of any
   length - every Run-loop iteration of the run from the initial state satisfies step_ok with the summary of the history
   before it: SetIface only with the parameters of the most recent accepted ACK and only after a clean ARP check since
   that ACK; the interface holds exactly that configuration while bound / renewing / rebinding and none while
   discovering; after a NAK, expiry, conflict or failed configuration the next iteration is the purge, which removes the
   configuration, and the one after it discovers; after a link-up with a validated lease the next iteration rebinds with
   resume_deadline to go; renewal starts at T1, rebinding at T2, the lease is given up at the expiry, T1/T2/expiry being
   computed from the instant of configuration and that ACK. *)
Theorem C15_history : forall croute script, hist_ok croute ghost0 (run_steps croute initial_client script).
Proof. exact client_history. Qed.
Print Assumptions C15_history.

Theorem C15_history_nth : forall croute steps g i r, hist_ok croute g steps -> nth_error steps i = Some r ->
  step_ok croute (summary g (firstn i steps)) r.
Proof. exact hist_ok_nth. Qed.
Print Assumptions C15_history_nth.

(* the trace the correspondence check compares with the implementation is the concatenation of those iterations' actions *)
Theorem C15_trace_is_history : forall croute script s,
  run_script croute s script = concat (map sr_acts (run_steps croute s script)).
Proof. exact run_script_is_steps. Qed.
Print Assumptions C15_trace_is_history.

Example C15_nonvacuous :
  let l := {| li_yiaddr := 167772260; li_sid := 167772161; li_mask := Some [255; 255; 240; 0]%N; li_routers := [167772161]%N; li_dns := [];
              li_domain := []; li_mtu := 1400; li_lease := 600 * ns_s; li_t1 := 0; li_t2 := 0 |} in
  let script := [(EPurge, false); (EExchange 0 (XAccept (ns_s / 2) l), false); (EExchange 0 (XAccept (ns_s / 2) l), false);
                 (EArp ANone, false); (ESetIface true None, false); (ESleep None, false);
                 (EExchange (ns_s / 10) (XNak (ns_s / 2)), false); (EPurge, false)] in
  map (fun a => match a with AUnconfigure t => (1, t) | AUp t => (2, t) | ASetIface t _ _ => (3, t) | AExchange t k => (4, t) | ACrash t => (5, t) | AReturn t => (6, t) end)
      (run_script false initial_client script) =
  [(1, 0); (2, 0); (4, 0); (4, 500000000); (3, 1200000000); (4, 301300000000); (1, 301700000000); (2, 301700000000)].
Proof. vm_compute. reflexivity. Qed.

(* a history with a renewal, a link-up while bound and a NAK: 13 iterations, the lease re-validated by rebinding at the link-up *)
Example C15_history_nonvacuous :
  let l := {| li_yiaddr := 167772260; li_sid := 167772161; li_mask := None; li_routers := [167772161]%N; li_dns := [];
              li_domain := []; li_mtu := 0; li_lease := 600 * ns_s; li_t1 := 0; li_t2 := 0 |} in
  let script := [(EPurge, false); (EExchange 0 (XAccept ns_s l), false); (EExchange 0 (XAccept ns_s l), false);
                 (EArp ANone, false); (ESetIface true None, false); (ESleep None, false);
                 (EExchange 0 (XAccept ns_s l), false); (EArp ANone, false); (ESetIface true None, false);
                 (ESleep (Some (5 * ns_s)), true); (EExchange 0 (XNak ns_s), false); (EPurge, false); (EExchange 0 XTimeout, false)] in
  let steps := run_steps true initial_client script in
  map (fun r => c_phase (sr_pre r)) steps =
    [PPurge; PDiscover; PSelect; PArp; PIfconfig; PBound; PRenew; PArp; PIfconfig; PBound; PRebind; PPurge; PDiscover] /\
  g_pending (summary ghost0 (firstn 10 steps)) = PMustRebind (308400000000 + resume_deadline) /\
  g_conf (summary ghost0 (firstn 10 steps)) = Some (build_netconf true l) /\
  g_conf (summary ghost0 steps) = None.
Proof. vm_compute. repeat split; reflexivity. Qed.
