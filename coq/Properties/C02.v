(* C02 — Only addresses the configuration allows are ever handed out.  Statements only. *)
From PSA Require Import model.Bytes model.Clients model.Ipdb model.Dhcp spec.SpecTable spec.SpecIpdb model.Server
  proofs.TableProofs proofs.LeaseProofs proofs.ServerProofs.
From PSA Require Import spec.Monitors.
From PSA Require Import spec.WireHyps spec.WireExample proofs.WireProofs proofs.WireInv proofs.WireHypsProofs proofs.WireExampleProofs.
Open Scope N_scope.

(* Over every history of grounded server operations (handleRequest passes to UpdateClient/HoldClient the
   address it looked up; OfferIP searches candidates of the dynamic range) every entry of every reachable
   table - hence every address that can be offered or acknowledged - is a configured static address (or the
   server's own permanent entry) or lies in the dynamic range. *)
Theorem C02_only_configured_addresses : forall x stat h, wf_ranges x -> forall t now, clock_ok h -> unique_live now t ->
  AInv x stat t -> grounded_run x t now h -> AInv x stat (fst (t_final x t now h)).
Proof. exact allowed_invariant. Qed.
Print Assumptions C02_only_configured_addresses.

(* a search result is the caller's existing address or an address of the dynamic range that is not .0/.255 *)
Theorem C02_search_in_range : forall x perm c pr now sg d t a now',
  wf_ranges x -> (forall a, (0 <= snd (pr a))%Z) -> Forall (fun v => v <= dyn_to x - dyn_from x) perm ->
  bound_ip now d t = None -> t_find_ip x perm c pr now sg d t = (Some a, now') ->
  dynamic_disabled x = false /\ dyn_from x <= a <= dyn_to x /\ exists tl, (now <= tl <= now')%Z /\ eligible pr tl t a.
Proof. exact find_ip_sound. Qed.
Print Assumptions C02_search_in_range.

(* a statically reserved address and the server's own address (both permanent bindings) can only be
   reserved by their owner, and the owner only gets that address: in particular the server's address is
   never handed to a client, and with static_only nothing but reservations exists *)
Theorem C02_permanent_exclusive : forall h x t0 now0 p e now ip d ttl ok t' n (hold : bool),
  clock_ok h -> unique_live now0 t0 -> nth_error t0 p = Some e -> e_perm e = true ->
  let t := fst (t_final x t0 now0 h) in
  (snd (t_final x t0 now0 h) <= now)%Z -> to_uip x ip = Some n ->
  (if hold then t_hold_client x now ip d ttl t else t_update_client x now ip d ttl t) = (ok, t') -> ok = true ->
  (e_ip e = n <-> e_duid e = d).
Proof. exact permanent_exclusive. Qed.
Print Assumptions C02_permanent_exclusive.

(* the server's identity cannot be obtained by a client: no hardware address / identifier pair other than the
   owner's maps to an internal identity *)
Theorem C02_identity_not_forgeable : forall c mac cid mac', get_duid c mac cid = sduid mac' -> mac = mac'.
Proof. exact identity_not_forgeable. Qed.
Print Assumptions C02_identity_not_forgeable.

(* with static_only the search never finds anything for a client without binding *)
Theorem C02_static_only : forall x perm c pr now sg d t, dynamic_disabled x = true -> bound_ip now d t = None ->
  fst (t_find_ip x perm c pr now sg d t) = None.
Proof. exact static_only_no_search. Qed.
Print Assumptions C02_static_only.

(* ON THE WIRE, over whole histories: for every configuration with distinct reserved hardware addresses and distinct reserved
   addresses inside the network (the server's own among them) and every sequence of sequential rounds that the acceptor
   accepts from the initial table, mon_C02 holds: the yiaddr of every OFFER and ACK lies inside the network, is not the
   server's address, is the requesting hardware address's reserved address or else lies in the dynamic range, and with
   static_only nothing is offered to an unreserved client.  Proof: the ownership invariant SInv (permanent entries = the
   configured pairs; every other entry in the dynamic range, never on a permanent address or identity) is kept by every
   accepted round; the OFFER/ACK of a round names an entry of the table after it. *)
Theorem C02_on_the_wire : forall c h, cfg_wire_ok c -> cfg_srv_ok c -> Forall wf_round h -> seq_times 0%Z h -> accepted c h -> mon_C02 c h = true.
Proof. exact accepted_history_c02. Qed.
Print Assumptions C02_on_the_wire.

Theorem C02_wire_nonvacuous : exists c h, wire_example = Some (c, h) /\
  cfg_wire_ok c /\ cfg_srv_ok c /\ Forall wf_round h /\ seq_times 0%Z h /\ (0 <= hold_ns <= c_lease c)%Z /\ (0 <= req_hold_ns <= c_lease c)%Z /\
  accepted c h /\ length h = 6%nat /\ length (events c h) = 2%nat /\ length (flat_map r_outs h) = 3%nat.
Proof. exact wire_example_premises. Qed.
Print Assumptions C02_wire_nonvacuous.

Example C02_nonvacuous :
  let x := {| net_from := 10; net_to := 20; dyn_from := 12; dyn_to := 13; st := empty_store |} in
  wf_ranges x /\ AInv x [11] [{| e_ip := 11; e_duid := [9]; e_until := 0; e_perm := true |}] /\
  fst (t_find_ip x [1; 0] (fun _ => false) (fun _ => (true, 0%Z)) 0%Z (Some 17) [1] []) = Some 13.
Proof. split; [unfold wf_ranges; cbn; lia|]. split; [|vm_compute; reflexivity].
  intros p e H. destruct p as [|[|p]]; cbn in H; try discriminate. injection H as <-. left. cbn. auto. Qed.
