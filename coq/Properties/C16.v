(* C16 (message-format half) — Client messages are well-formed for the state they are sent in.
   Statements only; every proof is `exact <lemma>`.

   request k xid ipid iaid hw leased server  models tmpl.request as called by Discover / RequestSelecting /
   RequestRenewing / RequestRebinding of lib/client/msgtmpl (k = RDiscover / RSelecting / RRenewing / RRebinding);
   request_for takes the IAID of the client identifier to be the CRC-32 (IEEE) of the hardware address, as
   dhcpmsg.OptionClientIdentifier does.  wellformed_for (coq/spec/SpecClient.v) reads the property's conditions
   directly off the raw bytes.  The retransmission-timing half of C16 is in the last four theorems (model: sendMessage's delay recurrence in model/Client.v). *)
From PSA Require Import model.Bytes model.Layer model.Dhcp spec.SpecCodec spec.SpecClient model.Tmpl proofs.TmplProofs.
From PSA Require model.Client proofs.ClientProofs.
Open Scope N_scope.

(* For ALL hardware addresses of up to 16 bytes, transaction ids, IP ids, IAIDs, leased addresses and servers, and each
   of the four kinds: the template yields a packet (no panic) that the independent recogniser accepts for that kind:
   IPv4 header and UDP checksums verify, UDP 68 -> 67, BOOTREQUEST, htype 1, hlen and chaddr = the hardware address, magic
   cookie, option 53 = DISCOVER resp. REQUEST, option 61 = ff ‖ IAID ‖ 00 03 00 01 ‖ first six bytes of the address,
   options 57 (2 bytes) and 55 (non-empty) present, and per kind the IP source/destination, ciaddr and the presence
   (selecting: = offered address, = chosen server) or absence of options 50 and 54.  The packet carries the given
   transaction id and IP identification. *)
Theorem C16_request_wellformed : forall k xid ipid iaid hw leased server, args_ok xid ipid iaid hw leased server ->
  exists p, request k xid ipid iaid hw leased server = Ok p /\ wellformed_for k hw leased server p = true /\
            dhcp_xid (udp_payload (ip_payload p)) = xid /\ w16 p 4 = ipid.
Proof. exact request_wellformed. Qed.
Print Assumptions C16_request_wellformed.

Theorem C16_request_for_wellformed : forall k xid ipid hw leased server,
  wf_bytes hw = true -> len hw <= 16 -> xid < 4294967296 -> ipid < 65536 -> leased < 4294967296 -> server < 4294967296 ->
  exists p, request_for k xid ipid hw leased server = Ok p /\ wellformed_for k hw leased server p = true /\
            dhcp_xid (udp_payload (ip_payload p)) = xid /\ w16 p 4 = ipid.
Proof. exact request_for_wellformed. Qed.
Print Assumptions C16_request_for_wellformed.

(* The same through the proved decoders of C12/C13: the packet decodes to IPv4 (source, destination, protocol 17, the TTL of request.go)
   carrying UDP 68 -> 67 carrying exactly the BOOTP message req_msg, whose fields and option list (in order) are spelled
   out by C16_message_fields and whose addressing per kind by C16_addressing. *)
Theorem C16_request_decodes : forall k xid ipid iaid hw leased server, args_ok xid ipid iaid hw leased server ->
  exists p q,
    request k xid ipid iaid hw leased server = Ok p /\
    ipv4_hdr_ok p = true /\ udp_ok (req_src k leased) (req_dst k server) (skipn 20 p) = true /\
    decode_ipv4 p = Ok q /\ ip_src q = req_src k leased /\ ip_dst q = req_dst k server /\ ip_proto q = 17 /\ ip_ttl q = GoFacts.gf_client_ttl /\
    decode_udp (ip_data q) = Ok {| udp_sport := 68; udp_dport := 67; udp_data := dhcp_assemble (req_msg k xid iaid hw leased server) |} /\
    dhcp_decode (dhcp_assemble (req_msg k xid iaid hw leased server)) = Ok (req_msg k xid iaid hw leased server).
Proof. exact request_decodes. Qed.
Print Assumptions C16_request_decodes.

Theorem C16_message_fields : forall k xid iaid hw leased server,
  let m := req_msg k xid iaid hw leased server in
  d_op m = 1 /\ d_htype m = 1 /\ d_xid m = xid /\ d_chaddr m = hw /\ d_cookie m = 1669485411 /\
  d_ciaddr m = req_src k leased /\ d_yiaddr m = 0 /\ d_siaddr m = 0 /\ d_giaddr m = 0 /\ d_secs m = 0 /\ d_flags m = 0 /\
  d_options m =
    [(53, [match k with RDiscover => 1 | _ => 3 end]);
     (61, [255] ++ put32 iaid ++ [0; 3; 0; 1] ++ firstn 6 (hw ++ repeat 0 6));
     (57, put16 GoFacts.gf_max_msg_size); (55, GoFacts.gf_param_list)]
    ++ match k with RSelecting => [(50, put32 leased); (54, put32 server)] | _ => [] end.
Proof. exact req_msg_fields. Qed.
Print Assumptions C16_message_fields.

Theorem C16_addressing : forall leased server,
  (req_src RDiscover leased, req_dst RDiscover server) = (0, 4294967295) /\
  (req_src RSelecting leased, req_dst RSelecting server) = (0, 4294967295) /\
  (req_src RRenewing leased, req_dst RRenewing server) = (leased, server) /\
  (req_src RRebinding leased, req_dst RRebinding server) = (leased, 4294967295).
Proof. exact req_addressing. Qed.
Print Assumptions C16_addressing.

(* non-vacuity: concrete messages of each kind are recognised for their kind and for no other; a 16-byte hardware
   address meets the hypotheses; the CRC-32 is the IEEE one ("123456789" -> cbf43926) *)
(* Retransmissions within one exchange (sendMessage): for EVERY sequence of random draws the waits are at least the
   initial 700 ms, never shrink, at most double, and stay constant once past the 100 s barrier; the transaction id is fixed by
   the template closure (C16_request_wellformed takes xid as a parameter of the whole exchange) *)
Theorem C16_retransmission_spacing : forall rs d, (Client.retx_first <= d)%Z -> Forall (fun r => (0 <= r)%Z) rs ->
  Forall (fun x => (Client.retx_first <= x)%Z) (Client.delays d rs) /\
  (forall i a b, nth_error (Client.delays d rs) i = Some a -> nth_error (Client.delays d rs) (S i) = Some b -> (a <= b)%Z) /\
  (forall a, hd_error (Client.delays d rs) = Some a -> (d <= a)%Z).
Proof. exact ClientProofs.delays_spacing. Qed.
Print Assumptions C16_retransmission_spacing.

Theorem C16_retransmission_step : forall d r, (0 <= d)%Z -> (0 <= r)%Z -> (d <= Client.next_delay d r <= 2 * d)%Z.
Proof. exact ClientProofs.next_delay_bounds. Qed.
Print Assumptions C16_retransmission_step.

Theorem C16_retransmission_barrier : forall d r, (Client.retx_barrier <= d)%Z -> Client.next_delay d r = d.
Proof. exact ClientProofs.delay_constant_past_barrier. Qed.
Print Assumptions C16_retransmission_barrier.

(* nothing is transmitted for an exchange that ended before its first transmission was due *)
Theorem C16_no_transmission_after_end : forall t pre dur kind, (dur <= pre)%Z -> Client.sent t pre dur kind = [].
Proof. exact ClientProofs.sent_nothing_after_end. Qed.
Print Assumptions C16_no_transmission_after_end.

Example C16_nonvacuous :
  let hw := [2; 0; 0; 0; 0; 9] in
  let hw16 := [1; 2; 3; 4; 5; 6; 7; 8; 9; 10; 11; 12; 13; 14; 15; 16] in
  let rec_ k k' h := match request_for k 305419896 4660 h 167772170 167772161 with
                     | Ok p => wellformed_for k' h 167772170 167772161 p | _ => false end in
  rec_ RDiscover RDiscover hw = true /\ rec_ RSelecting RSelecting hw = true /\ rec_ RRenewing RRenewing hw = true /\
  rec_ RRebinding RRebinding hw16 = true /\
  rec_ RDiscover RSelecting hw = false /\ rec_ RSelecting RDiscover hw = false /\ rec_ RRenewing RRebinding hw = false /\
  rec_ RRebinding RRenewing hw = false /\ rec_ RSelecting RRenewing hw = false /\
  crc32_ieee [49; 50; 51; 52; 53; 54; 55; 56; 57] = 3421780262.
Proof. vm_compute. repeat split. Qed.
