(* C18 — invalid or ambiguous configuration is rejected; a valid one is applied exactly.
   Statements only; every proof is `exact <lemma>` (proofs/ConfigProofs.v).
   new_server is the model of server.New (model/Config.v) over the abstract configuration; valid_config,
   expected_ranges, expected_bindings, expected_options are the declarative reading (spec/SpecConfig.v).
   The client map enters as a list in iteration order; with_clients c l' is c with another order. *)
From Coq Require Import Permutation.
From PSA Require Import model.Bytes model.Dhcp model.Clients model.Ipdb spec.SpecTable model.Server model.Config spec.SpecConfig
  proofs.ConfigProofs.
From PSA Require spec.Monitors.
From PSA Require Import model.Server proofs.WireProofs proofs.WireInv proofs.WireLease proofs.WireSnap proofs.WireConfig.
Open Scope N_scope.

(* A configuration that is accepted meets every validity condition.  valid_config is a record with one
   named field per condition: v_network, v_lease_parsed, v_lease_min, v_lease_fits (< 2^32 s),
   v_global_addrs, v_global_fits (lists <= 63, domain <= 255), v_range, v_own, v_client_keys,
   v_client_addrs, v_client_fits, v_statics_in_net, v_distinct_macs, v_distinct_ips, v_own_mac_free. *)
Theorem C18_sound : forall c own own_mac s, new_server c own own_mac = Ok s -> valid_config c own own_mac.
Proof. exact new_server_sound. Qed.
Print Assumptions C18_sound.

(* Every valid configuration is accepted. *)
Theorem C18_complete : forall c own own_mac, valid_config c own own_mac -> exists s, new_server c own own_mac = Ok s.
Proof. exact new_server_complete. Qed.
Print Assumptions C18_complete.

(* The only other outcome is the error return: start-up never panics. *)
Theorem C18_rejected_iff_invalid : forall c own own_mac, new_server c own own_mac = Err <-> ~ valid_config c own own_mac.
Proof. exact new_server_err_iff. Qed.
Print Assumptions C18_rejected_iff_invalid.

Theorem C18_no_panic : forall c own own_mac, new_server c own own_mac <> Panic.
Proof. exact new_server_no_panic. Qed.
Print Assumptions C18_no_panic.

(* Determinism: for every two iteration orders of the client map the verdict is the same and, when the
   server starts, so are the ranges, the global options, the options sent to every hardware address and
   the set of permanent bindings. *)
Theorem C18_order_independent : forall c l' own own_mac, Permutation (g_clients c) l' ->
  (forall s, new_server c own own_mac = Ok s ->
     exists s', new_server (with_clients c l') own own_mac = Ok s' /\
       s_db s' = s_db s /\ s_lopts s' = s_lopts s /\ s_self s' = s_self s /\
       Permutation (s_table s) (s_table s') /\
       forall mac, effective_options s' mac = effective_options s mac) /\
  (new_server c own own_mac = Err -> new_server (with_clients c l') own own_mac = Err).
Proof. exact new_server_order_independent. Qed.
Print Assumptions C18_order_independent.

(* Applied exactly: the ranges are the configured ones, the permanent bindings are the reservations plus
   the server itself and nothing else, the duration reserved for an acknowledged lease is the configured one. *)
Theorem C18_applied_exactly : forall c own own_mac s, new_server c own own_mac = Ok s ->
  exists self, own = Some self /\ s_self s = self /\
    Some (ranges_of (s_db s)) = expected_ranges c /\
    s_table s = expected_bindings c self own_mac /\
    reserved_ns s = match g_lease c with Dur ns => ns | LeaseBad => 0%Z end.
Proof. exact new_server_state. Qed.
Print Assumptions C18_applied_exactly.

(* Nothing is silently dropped: every hardware address is sent the per-client value where its entry sets
   one, else the global value (C07), ... *)
Theorem C18_every_value_in_effect : forall c own own_mac s mac,
  new_server c own own_mac = Ok s -> effective_options s mac = expected_options c mac.
Proof. exact new_server_options. Qed.
Print Assumptions C18_every_value_in_effect.

(* ... and every option payload fits the one-byte length field of the wire format. *)
Theorem C18_options_representable : forall c own own_mac s mac,
  new_server c own own_mac = Ok s -> representable (effective_options s mac) = true.
Proof. exact options_representable. Qed.
Print Assumptions C18_options_representable.

(* The decidable test evaluated as a monitor on the implementation is the specification, and the model
   accepts exactly when it holds. *)
Theorem C18_monitor_is_spec : forall c own own_mac, valid_config_b c own own_mac = true <-> valid_config c own own_mac.
Proof. exact valid_config_b_iff. Qed.
Print Assumptions C18_monitor_is_spec.

Theorem C18_model_accepts_iff_monitor : forall c own own_mac, is_ok (new_server c own own_mac) = valid_config_b c own own_mac.
Proof. exact new_server_accepts_iff_b. Qed.
Print Assumptions C18_model_accepts_iff_monitor.

(* The limits found in the source (gen/GoFacts.v, regenerated from /repo on every run) are the ones the property
   text and the wire format state: one minute, one length byte (255 bytes, 63 addresses), 32 bits of seconds. *)
Theorem C18_limits :
  max_opt_len = spec_max_opt_len /\ max_addrs = spec_max_addrs /\ max_lease_secs = spec_max_lease_secs /\
  min_lease_ns = spec_min_lease_ns.
Proof. exact limits_agree. Qed.
Print Assumptions C18_limits.

(* 192.168.1.0/24, lease 1 h, router and one DNS, range .100-.200, two client entries (one reservation with
   router and DNS override and host name, one with NTP only), own address .2: accepted, with exactly two
   permanent bindings.  The same with a second entry for aa:bb:cc:dd:ee:ff (another spelling), a 64-entry DNS
   list, a 2^32-second lease, or an unparsable client address: rejected. *)
(* "its behaviour is a deterministic function of the configuration in which every configured value is in effect": from the
   configuration language to the wire.  scfg_of is the configuration of the handler model (model/Server.v) that an accepted
   configuration gives rise to: reservations = the static entries, option lists = expected_options, lease = the configured
   duration, ranges = those New computed.  (1) It meets every configuration premise of the wire-level theorems, and the table the
   handler model starts from is exactly the table New built.  (2) Hence, for every accepted configuration, every sequential
   history the acceptor accepts satisfies the monitors of C01-C08 and C10.  Strings of the configuration are byte strings and
   addresses 32-bit numbers (config_bytes_ok and the two bounds). *)
Theorem C18_accepted_configuration_meets_wire_premises : forall c own own_mac s, new_server c own own_mac = Ok s -> config_bytes_ok c ->
  (forall ip mask, g_network c = Net4 ip mask -> ip < 4294967296 /\ mask < 4294967296) -> s_self s < 4294967296 ->
  let sc := scfg_of c (s_self s) own_mac (reserved_ns s) (s_db s) in
  cfg_wire_ok sc /\ cfg_srv_ok sc /\ cfg_lease_ok sc /\ cfg_c07_ok sc /\ durations_ok sc /\ initial_table sc = s_table s.
Proof. exact accepted_config_premises. Qed.
Print Assumptions C18_accepted_configuration_meets_wire_premises.

Theorem C18_accepted_configuration_to_the_wire : forall c own own_mac s h, new_server c own own_mac = Ok s -> config_bytes_ok c ->
  (forall ip mask, g_network c = Net4 ip mask -> ip < 4294967296 /\ mask < 4294967296) -> s_self s < 4294967296 ->
  let sc := scfg_of c (s_self s) own_mac (reserved_ns s) (s_db s) in
  Forall wf_round h -> snap_times 0%Z h -> accepted sc h ->
  Monitors.mon_C01 sc h = true /\ Monitors.mon_C02 sc h = true /\ Monitors.mon_C03 sc h = true /\ Monitors.mon_C04 sc h = true /\ Monitors.mon_C05 sc h = true /\
  Monitors.mon_C06 sc h = true /\ Monitors.mon_C07 sc h = true /\ Monitors.mon_C08 sc h = true /\ Monitors.mon_C10 sc h = true.
Proof. exact accepted_config_to_the_wire. Qed.
Print Assumptions C18_accepted_configuration_to_the_wire.

Example C18_nonvacuous :
  let mac1 := [170; 187; 204; 221; 238; 255] in let mac2 := [170; 187; 204; 221; 238; 1] in let own_mac := [2; 0; 0; 0; 0; 1] in
  let k1 := {| k_key := Mac mac1; k_ip := V4 3232235786; k_router := V4 3232236030; k_dns := [V4 151587081]; k_ntp := []; k_hostname := [112; 114] |} in
  let k2 := {| k_key := Mac mac2; k_ip := AUnset; k_router := AUnset; k_dns := [AUnset]; k_ntp := [V4 167772161]; k_hostname := [] |} in
  let c l dns lease := {| g_network := Net4 3232235776 4294967040; g_lease := Dur lease; g_router := V4 3232235777; g_dns := dns; g_ntp := [];
             g_domain := [101; 120]; g_range := Range (Some 3232235876) (Some 3232235976); g_static_only := false; g_clients := l |} in
  let good := c [k1; k2] [V4 3232235829] 3600000000000%Z in
  valid_config_b good (Some 3232235778) own_mac = true /\
  (match new_server good (Some 3232235778) own_mac with
   | Ok s => ranges_of (s_db s) = (3232235777, 3232236030, 3232235876, 3232235976) /\ length (s_table s) = 2%nat /\
             effective_options s mac1 = [(51, [0; 0; 14; 16]); (1, [255; 255; 255; 0]); (3, [192; 168; 1; 254]); (6, [9; 9; 9; 9]); (15, [101; 120]); (12, [112; 114])] /\
             effective_options s mac2 = [(51, [0; 0; 14; 16]); (1, [255; 255; 255; 0]); (3, [192; 168; 1; 1]); (6, [192; 168; 1; 53]); (42, [10; 0; 0; 1]); (15, [101; 120])] /\
             effective_options s own_mac = expected_options good own_mac
   | _ => False end) /\
  new_server (c [k2; k1] [V4 3232235829] 3600000000000%Z) (Some 3232235778) own_mac <> Err /\
  new_server (c [k1; k2; {| k_key := Mac mac1; k_ip := AUnset; k_router := V4 3232235777; k_dns := []; k_ntp := []; k_hostname := [] |}]
                [V4 3232235829] 3600000000000%Z) (Some 3232235778) own_mac = Err /\
  new_server (c [k1; k2] (repeat (V4 167772161) 64) 3600000000000%Z) (Some 3232235778) own_mac = Err /\
  new_server (c [k1; k2] (repeat (V4 167772161) 63) 3600000000000%Z) (Some 3232235778) own_mac <> Err /\
  new_server (c [k1; k2] [] 4294967296000000000%Z) (Some 3232235778) own_mac = Err /\
  new_server (c [{| k_key := Mac mac1; k_ip := ABad; k_router := AUnset; k_dns := []; k_ntp := []; k_hostname := [] |}] [] 3600000000000%Z)
             (Some 3232235778) own_mac = Err /\
  new_server good (Some 3232236031) own_mac = Err.
Proof. vm_compute. repeat split; discriminate. Qed.
