(* C06 — Replies are correlated with and addressed to the requesting client.  Statements only. *)
From PSA Require Import gen.GoFacts model.Bytes model.Layer model.Dhcp model.Server spec.SpecCodec proofs.DhcpProofs proofs.ServerProofs.
From PSA Require Import spec.Monitors.
From PSA Require Import spec.WireHyps spec.WireExample proofs.WireProofs proofs.WireInv proofs.WireHypsProofs proofs.WireExampleProofs.
Open Scope N_scope.

(* OFFER/ACK: for every transaction id, flag word, assigned address, hardware address up to 16 bytes and
   option list that fits a datagram, the frame handed to the link layer goes to the broadcast hardware
   address iff the broadcast flag is set (else to the client's hardware address) and decodes - with the
   decoders proved equal to the RFC parsers in C12/C13 - to: IPv4 protocol 17 with verifying header checksum,
   source = server address, destination = broadcast iff the flag is set else the assigned address, UDP 67 -> 68
   with verifying checksum, and a DHCP message that is exactly reply_msg: BOOTREPLY, same xid, flags echoed,
   yiaddr, same chaddr, options 53 = type, 54 = server address, then the configured parameters *)
Theorem C06_lease_reply_envelope : forall c typ m yi,
  let msg := reply_msg c typ (d_xid m) (d_flags m) yi (d_chaddr m) (opts_for c (d_chaddr m)) in
  wf_reply_inputs c m yi (opts_for c (d_chaddr m)) typ (d_flags m) = true -> len (dhcp_assemble msg) <= 65507 ->
  exists p q, reply_lease c typ m yi = Ok ((if bflag (d_flags m) then bcast_mac else d_chaddr m), p) /\
    decode_ipv4 p = Ok q /\ ip_src q = c_self_ip c /\ ip_dst q = reply_ip_dst (d_flags m) yi /\ ip_proto q = 17 /\
    ipv4_hdr_ok p = true /\ udp_ok (c_self_ip c) (reply_ip_dst (d_flags m) yi) (skipn 20 p) = true /\
    decode_udp (ip_data q) = Ok {| udp_sport := 67; udp_dport := 68; udp_data := dhcp_assemble msg |} /\
    dhcp_decode (dhcp_assemble msg) = Ok msg.
Proof. exact lease_reply_envelope. Qed.
Print Assumptions C06_lease_reply_envelope.

(* NAK: to the IP broadcast address, link-layer to the client, echoing xid and chaddr, naming the server *)
Theorem C06_nak_envelope : forall c m,
  let msg := reply_msg c gf_dhcpmsg_MsgTypeNack (d_xid m) 0 0 (d_chaddr m) [] in
  wf_reply_inputs c m 0 [] gf_dhcpmsg_MsgTypeNack 0 = true ->
  exists p q, reply_nak c m = Ok (d_chaddr m, p) /\
    decode_ipv4 p = Ok q /\ ip_src q = c_self_ip c /\ ip_dst q = bcast_ip /\ ip_proto q = 17 /\
    ipv4_hdr_ok p = true /\ udp_ok (c_self_ip c) bcast_ip (skipn 20 p) = true /\
    decode_udp (ip_data q) = Ok {| udp_sport := 67; udp_dport := 68; udp_data := dhcp_assemble msg |} /\
    dhcp_decode (dhcp_assemble msg) = Ok msg.
Proof. exact nak_envelope. Qed.
Print Assumptions C06_nak_envelope.

(* one client message causes at most one reply: an accepted round has at most one frame, and it is one of the
   two envelopes above *)
Theorem C06_at_most_one_reply : forall c t r src dst m o t',
  accept_request c t r src dst m o = RAcc t' -> (length (r_outs r) <= 1)%nat.
Proof. exact at_most_one_reply. Qed.
Print Assumptions C06_at_most_one_reply.

(* ON THE WIRE, over whole histories.  The acceptor of model/Server.v is what every run compares the implementation with,
   round by round (tag 101).  For every configuration whose option lists fit an option area and every finite sequence of
   rounds (received byte strings, ARP situations, observed frames and instants): if the acceptor accepts it from the initial
   table, then mon_C06 - the property as read off the frames by the independent decoders - holds: at most one reply per
   message; each reply verifies (IPv4 header checksum, UDP checksum), is a BOOTREPLY from the server's address, port 67 to 68,
   echoes transaction id and hardware address and names the server; OFFER/ACK echo the flags and go to the broadcast
   addresses iff the flag is set, else to the assigned address at the client's hardware address; a NAK goes to IP broadcast. *)
Theorem C06_on_the_wire : forall c h, cfg_wire_ok c -> Forall wf_round h -> accepted c h -> mon_C06 c h = true.
Proof. exact accepted_history_c06. Qed.
Print Assumptions C06_on_the_wire.

(* the premises are boolean conditions (spec/WireHyps.v) that the check evaluates on every history it generates (tag 220) *)
Theorem C06_premises_decidable : forall c h, wire_hyps c h = true ->
  cfg_wire_ok c /\ cfg_srv_ok c /\ Forall wf_round h /\ seq_times 0%Z h /\ (0 <= hold_ns <= c_lease c)%Z /\ (0 <= req_hold_ns <= c_lease c)%Z.
Proof. exact wire_hyps_sound. Qed.
Print Assumptions C06_premises_decidable.

(* ... and they are met, with acceptance, by a recorded history of the real server (OFFER, ACK, NAK, silent rounds) *)
Theorem C06_wire_nonvacuous : exists c h, wire_example = Some (c, h) /\
  cfg_wire_ok c /\ cfg_srv_ok c /\ Forall wf_round h /\ seq_times 0%Z h /\ (0 <= hold_ns <= c_lease c)%Z /\ (0 <= req_hold_ns <= c_lease c)%Z /\
  accepted c h /\ length h = 6%nat /\ length (events c h) = 2%nat /\ length (flat_map r_outs h) = 3%nat.
Proof. exact wire_example_premises. Qed.
Print Assumptions C06_wire_nonvacuous.

Example C06_nonvacuous :
  let c := {| c_self_ip := 167772161; c_self_mac := [2; 0; 0; 0; 0; 1]; c_lease := 60000000000;
              c_db := {| Ipdb.net_from := 167772161; Ipdb.net_to := 167772414; Ipdb.dyn_from := 167772170; Ipdb.dyn_to := 167772180; Ipdb.st := Clients.empty_store |};
              c_statics := []; c_opts := []; c_default_opts := [(51, [0; 0; 0; 60]); (1, [255; 255; 255; 0])] |} in
  let m := {| d_op := 1; d_htype := 1; d_hops := 0; d_xid := 305419896; d_secs := 0; d_flags := 32768; d_ciaddr := 0; d_yiaddr := 0;
              d_siaddr := 0; d_giaddr := 0; d_chaddr := [2; 187; 0; 0; 0; 9]; d_sname := zeros 64; d_file := zeros 128;
              d_cookie := 1669485411; d_options := [(53, [1])] |} in
  wf_reply_inputs c m 167772170 (opts_for c (d_chaddr m)) 2 (d_flags m) = true /\
  match reply_lease c 2 m 167772170 with Ok (eth, p) => bytes_eqb eth bcast_mac && ipv4_hdr_ok p | _ => false end = true.
Proof. vm_compute. split; reflexivity. Qed.
