(* C09 — Concurrently arriving packets are handled in isolation (partial: the Go memory model itself is outside
   the model; data races are evidenced by race-detector runs only).  Statements only. *)
From PSA Require Import gen.GoFacts model.Bytes model.Clients model.Ipdb model.Dhcp spec.SpecTable spec.SpecIpdb model.Server
  proofs.ConstFacts proofs.ClientsProofs proofs.IpdbProofs proofs.TableProofs proofs.LeaseProofs proofs.ServerProofs.
Open Scope N_scope.

(* (c) database operations are atomic steps (every exported method holds the lock throughout - read from the
   source on every run), so any interleaving of handlers IS a sequential history of database operations, and on
   every such history the store behaves as the sequential reference table *)
Theorem C09_db_operations_atomic : gf_ipdb_methods_locked = true.
Proof. exact cf_ipdb_methods_locked. Qed.
Print Assumptions C09_db_operations_atomic.

Theorem C09_sequential_semantics : forall h x now, clock_ok h -> Rep now (st x) -> c_run x now h = t_run x (heap (st x)) now h.
Proof. exact c_run_refines. Qed.
Print Assumptions C09_sequential_semantics.

(* handlers own their data: the message is passed by value (read from the source on every run); option payloads
   are copies (checked by the no-alias run) *)
Theorem C09_handler_owns_message : gf_handler_started_by_value = true.
Proof. exact cf_handler_started_by_value. Qed.
Print Assumptions C09_handler_owns_message.

(* (a) non-interference: what a REQUEST is answered is a function of its own message and of the results of its own
   database steps (the sender's binding, its probe) - nothing else of the state, no byte of any other packet *)
Theorem C09_verdict_depends_on_own_steps : forall c t r src dst m o t',
  accept_request c t r src dst m o = RAcc t' ->
  let duid := get_duid c (d_chaddr m) (o_cid o) in
  match request_verdict c src dst o (bound_ip (r_t r) duid t) (probe_free (r_arp r) (d_chaddr m) (match bound_ip (r_t r) duid t with Some l => l | None => 0 end)) with
  | RDrop => r_outs r = []
  | RNak => exists f, r_outs r = [f] /\ frame_eqb f (reply_nak c m) = true
  | RAck ip => exists f, r_outs r = [f] /\ frame_eqb f (reply_lease c gf_dhcpmsg_MsgTypeAck m ip) = true
  end.
Proof. exact accept_request_follows_verdict. Qed.
Print Assumptions C09_verdict_depends_on_own_steps.

(* (b) not derailed: once an address is held for a client, then after ANY history of operations by any handlers
   (the arbitrary history inside LInv) and as long as the hold has not run out, the client's lookup returns that
   address and its UpdateClient succeeds: the exchange completes whatever other clients' packets arrived in between *)
Theorem C09_exchange_not_derailed : forall L x now t log ev,
  LInv L now t log -> In ev log -> (now <= g_t ev + g_dur ev)%Z -> to_uip x (Some (g_ip ev)) = Some (g_ip ev) ->
  t_lookup_by_duid now (g_duid ev) t = Some (g_ip ev) /\ fst (t_update_client x now (Some (g_ip ev)) (g_duid ev) L t) = true.
Proof. exact (fun L x now t log ev I Hin Hle Hu => conj (lookup_during_reservation L now t log ev I Hin Hle) (ack_succeeds L x now t log ev I Hin Hle Hu)). Qed.
Print Assumptions C09_exchange_not_derailed.

Theorem C09_invariant_under_every_interleaving : forall L x h, (0 <= L)%Z -> forall t now log,
  sv_ok L h -> LInv L now t log -> excl_log log ->
  let '(t', now', log') := g_run x t now h log in LInv L now' t' log' /\ excl_log log' /\ (now <= now')%Z.
Proof. exact lease_invariants. Qed.
Print Assumptions C09_invariant_under_every_interleaving.

(* a DISCOVER is ONE database operation (search and hold under one lock): concurrent DISCOVERs are handled one
   at a time in the order of their database steps; the hold of the refreshed offer outlasts the probe of a REQUEST *)
Theorem C09_discover_is_one_db_step : gf_discover_single_db_step = true /\ gf_request_db_steps = true.
Proof. exact (conj cf_discover_single_db_step cf_request_db_steps). Qed.
Print Assumptions C09_discover_is_one_db_step.

Theorem C09_probe_fits_hold : 10 * (gf_arp_tries * gf_arp_timeout_ns) <= gf_offer_hold_ns.
Proof. exact cf_probe_shorter_than_hold. Qed.
Print Assumptions C09_probe_fits_hold.

Example C09_nonvacuous :
  let x := {| net_from := 10; net_to := 20; dyn_from := 12; dyn_to := 13; st := empty_store |} in
  (* two clients search concurrently for the same suggested address: as two atomic steps, in either order both get an address *)
  let h1 := [(0%Z, OpOffer [0; 1] (fun _ => false) (fun _ => (true, 600%Z)) (Some 12) [1] 15%Z);
             (0%Z, OpOffer [0; 1] (fun _ => false) (fun _ => (true, 600%Z)) (Some 12) [2] 15%Z)] in
  map (fun e => (g_ip e, g_duid e)) (snd (g_run x [] 0%Z h1 [])) = [(12, [1]); (13, [2])].
Proof. vm_compute. reflexivity. Qed.
