(* C07 — offered parameters reflect the configuration, including per-client overrides.
   Statements only; every proof is `exact <lemma>` (proofs/ConfigProofs.v).
   effective_options is the model of dhcpOptions on the state built by the model of server.New;
   expected_options is the declarative reading: lease seconds, netmask, then router / DNS / NTP with the
   per-client value if that entry specifies one, else the global one, else omitted; the global domain;
   the per-client host name. *)
From Coq Require Import Permutation.
From PSA Require Import model.Bytes model.Dhcp model.Clients model.Ipdb spec.SpecTable model.Server model.Config spec.SpecConfig
  proofs.ConfigProofs.
From PSA Require Import spec.Monitors.
From PSA Require Import spec.WireHyps spec.WireExample proofs.WireProofs proofs.WireInv proofs.WireLease proofs.WireSnap proofs.WireHypsProofs proofs.WireExampleProofs spec.WireExample3 proofs.WireExample3Proofs.
From PSA Require Import proofs.WireConfig.
Open Scope N_scope.

(* For every configuration the server accepts (any subset of fields set globally and per client, any list
   lengths, any number of entries) and every hardware address, with or without an entry. *)
Theorem C07_options_are_expected : forall c own own_mac s mac,
  new_server c own own_mac = Ok s -> effective_options s mac = expected_options c mac.
Proof. exact new_server_options. Qed.
Print Assumptions C07_options_are_expected.

(* R8: the first option is the lease time; its value is the whole seconds of the configured duration, and
   that duration is the one handed to the lease database when the lease is acknowledged. *)
Theorem C07_advertised_is_reserved_floor : forall c own own_mac s mac, new_server c own own_mac = Ok s ->
  exists ns b0 b1 b2 b3 rest,
    g_lease c = Dur ns /\ reserved_ns s = ns /\
    effective_options s mac = (GoFacts.gf_dhcpmsg_OptIPAddressLeaseDuration, [b0; b1; b2; b3]) :: rest /\
    Z.of_N (be32 b0 b1 b2 b3) = (ns / second_ns)%Z.
Proof. exact advertised_is_floor. Qed.
Print Assumptions C07_advertised_is_reserved_floor.

(* OFFER and ACK (any reply type built by sendMsg) carry type, server identifier and then the same list. *)
Theorem C07_offer_and_ack_agree : forall c own own_mac s typ mac, new_server c own own_mac = Ok s ->
  reply_options s typ mac =
  (GoFacts.gf_dhcpmsg_OptMessageType, [typ]) :: (GoFacts.gf_dhcpmsg_OptServerIdentifier, put32 (s_self s)) :: expected_options c mac.
Proof. exact reply_options_expected. Qed.
Print Assumptions C07_offer_and_ack_agree.

(* ... which is the option list of the reply message of the server model (Server.reply_msg) *)
Theorem C07_reply_message_options : forall (sc : scfg) s typ xid flags y mac, c_self_ip sc = s_self s ->
  d_options (reply_msg sc typ xid flags y mac (effective_options s mac)) = reply_options s typ mac.
Proof. exact reply_msg_options. Qed.
Print Assumptions C07_reply_message_options.

(* every expected payload fits the length byte, so the wire form carries it unchanged (C12 round trip) *)
Theorem C07_expected_representable : forall c own own_mac mac,
  valid_config c own own_mac -> representable (expected_options c mac) = true.
Proof. exact expected_representable. Qed.
Print Assumptions C07_expected_representable.

(* the options do not depend on the iteration order of the client map *)
Theorem C07_order_independent : forall c l' mac, NoDup (client_macs (g_clients c)) -> Permutation (g_clients c) l' ->
  expected_options (with_clients c l') mac = expected_options c mac.
Proof. exact expected_options_perm. Qed.
Print Assumptions C07_order_independent.

(* Global router, DNS, domain; the entry for mac1 overrides router and DNS and sets a host name, the entry for
   mac2 sets NTP only; an unknown hardware address gets the global values.  Last conjunct: without the
   representability guard the 32-bit seconds field wraps (a 200-year lease would be advertised as 63.9 years). *)
(* ON THE WIRE (server-history part), over whole histories: on every accepted history mon_C07 holds - the options of every OFFER and
   ACK after the message type and server identifier are exactly the option list the configuration prescribes for the requesting
   hardware address (opts_for; that list is what C07_effective_is_expected speaks about), they carry the configured lease in whole
   seconds and a netmask, OFFER and ACK to one hardware address agree, and the listing after an ACK shows the address reserved
   at least as long as advertised.
   The acceptor (model/Server.v) is what every run compares the implementation with, round by round (tag 101); the premises
   are boolean conditions (spec/WireHyps.v) evaluated on every generated history (tag 220, Cxx_premises below); the rounds are
   sequential with a table listing after each (interleavings: the theorems over operation histories above). *)
Theorem C07_on_the_wire : forall c h, cfg_wire_ok c -> cfg_srv_ok c -> cfg_lease_ok c -> cfg_c07_ok c -> durations_ok c -> Forall wf_round h ->
  snap_times 0%Z h -> accepted c h -> mon_C07 c h = true.
Proof. exact accepted_history_c07. Qed.
Print Assumptions C07_on_the_wire.

Theorem C07_premises : forall c h, wire_hyps c h = true -> wire_premises c h.
Proof. exact wire_hyps_premises. Qed.
Print Assumptions C07_premises.

(* The option-list premises of the wire-level theorems are not assumptions about the configuration: for EVERY configuration the
   model of server.New accepts (strings being byte strings) and every hardware address, the list dhcpOptions builds fits an option
   area, every payload is bytes of at most 255, none of its codes is 53 or 54 (cfg_wire_ok's opts_ok), option 51 carries exactly the
   whole seconds of the duration handed to the lease database - never more than is reserved (cfg_lease_ok, cfg_c07_ok) - and a
   netmask is present. *)
Theorem C07_option_premises_hold : forall c own own_mac s mac ns, new_server c own own_mac = Ok s -> config_bytes_ok c -> g_lease c = Dur ns ->
  let os := effective_options s mac in
  opts_ok os = true /\ o_lease (decode_options os) = Z.to_N (reserved_ns s / 1000000000) /\
  (Z.of_N (o_lease (decode_options os)) * 1000000000 <= reserved_ns s)%Z /\ o_mask (decode_options os) <> None.
Proof. exact server_option_premises. Qed.
Print Assumptions C07_option_premises_hold.

(* the premises hold of, and the acceptor accepts, a recorded history of the real server (OFFER, ACK, NAK on an ARP conflict, silent rounds) *)
Theorem C07_wire_nonvacuous : exists c h, wire_example = Some (c, h) /\ wire_premises c h /\ accepted c h /\
  length h = 6%nat /\ length (events c h) = 2%nat /\ length (flat_map r_outs h) = 3%nat.
Proof. exact wire_example_full. Qed.
Print Assumptions C07_wire_nonvacuous.

(* the premises of the wire theorem are met by a recorded history of a client with a reserved address and settings of its own
   (spec/WireExample3.v) *)
Theorem C07_wire_nonvacuous_reservation : exists c h, wire_example3 = Some (c, h) /\ wire_premises c h /\ accepted c h /\
  length h = 4%nat /\ length (events c h) = 4%nat /\
  exists mac ip os, c_statics c = [(mac, ip)] /\ Forall (fun e => le_ip e = ip /\ le_mac e = mac) (events c h) /\
                    assoc mac (c_opts c) = Some os /\ os <> c_default_opts c.
Proof. exact wire_example3_full. Qed.
Print Assumptions C07_wire_nonvacuous_reservation.

Example C07_nonvacuous :
  let mac1 := [170; 187; 204; 221; 238; 255] in let mac2 := [170; 187; 204; 221; 238; 1] in let other := [6; 0; 0; 0; 0; 9] in
  let k1 := {| k_key := Mac mac1; k_ip := V4 3232235786; k_router := V4 3232236030; k_dns := [V4 151587081]; k_ntp := []; k_hostname := [112; 114] |} in
  let k2 := {| k_key := Mac mac2; k_ip := AUnset; k_router := AUnset; k_dns := [AUnset]; k_ntp := [V4 167772161]; k_hostname := [] |} in
  let c := {| g_network := Net4 3232235776 4294967040; g_lease := Dur 5400500000000%Z; g_router := V4 3232235777; g_dns := [V4 3232235829]; g_ntp := [];
              g_domain := [101; 120]; g_range := RUnset; g_static_only := false; g_clients := [k1; k2] |} in
  (match new_server c (Some 3232235778) [2; 0; 0; 0; 0; 1] with
   | Ok s => effective_options s mac1 = [(51, [0; 0; 21; 24]); (1, [255; 255; 255; 0]); (3, [192; 168; 1; 254]); (6, [9; 9; 9; 9]); (15, [101; 120]); (12, [112; 114])] /\
             effective_options s mac2 = [(51, [0; 0; 21; 24]); (1, [255; 255; 255; 0]); (3, [192; 168; 1; 1]); (6, [192; 168; 1; 53]); (42, [10; 0; 0; 1]); (15, [101; 120])] /\
             effective_options s other = [(51, [0; 0; 21; 24]); (1, [255; 255; 255; 0]); (3, [192; 168; 1; 1]); (6, [192; 168; 1; 53]); (15, [101; 120])] /\
             reserved_ns s = 5400500000000%Z
   | _ => False end) /\
  expected_options c mac1 = [(51, [0; 0; 21; 24]); (1, [255; 255; 255; 0]); (3, [192; 168; 1; 254]); (6, [9; 9; 9; 9]); (15, [101; 120]); (12, [112; 114])] /\
  lease_secs 6311390400000000000%Z = 2016423104.
Proof. vm_compute. repeat split. Qed.
