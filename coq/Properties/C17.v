(* C17 — Server-supplied data cannot inject into the hook environment or resolv.conf.
   Statements only; every proof is `exact <lemma>`.
   Models: model/Sanitize.v (callback.envEntry, dumpScriptConf; Go's rune-wise regexp replacement),
   model/Resolv.v (resolvconf.Run up to update()).  Specification: spec/SpecResolv.v (written without reference
   to the models or to the literals of the source). *)
From PSA Require Import model.Bytes model.Sanitize model.Resolv spec.SpecResolv proofs.SanitizeProofs proofs.ResolvProofs.
Open Scope N_scope.

(* For every key and every value (any bytes, any length, any UTF-8 damage) the entry handed to the hook script is
   "PSA_DHCPC_" key "=" s  where every byte of s is a letter, digit, comma, dot, hyphen or underscore, and s is
   not longer than the value. *)
Theorem C17_env_entry_charset : forall k v,
  exists s, env_entry k v = s_psa ++ k ++ [61] ++ s /\ Forall (fun c => env_safe c = true) s /\ (length s <= length v)%nat.
Proof. exact env_entry_safe. Qed.
Print Assumptions C17_env_entry_charset.

Theorem C17_env_safe_meaning : forall c,
  env_safe c = true <-> (65 <= c <= 90 \/ 97 <= c <= 122 \/ 48 <= c <= 57 \/ c = 44 \/ c = 46 \/ c = 45 \/ c = 95).
Proof. exact env_safe_meaning. Qed.
Print Assumptions C17_env_safe_meaning.

(* the run-time monitor used on the implementation's output accepts exactly such entries, and accepts every model output *)
Theorem C17_env_monitor_meaning : forall k e,
  env_var_ok k e = true <-> exists s, e = s_psa ++ k ++ [61] ++ s /\ Forall (fun c => env_safe c = true) s.
Proof. exact env_var_ok_meaning. Qed.
Print Assumptions C17_env_monitor_meaning.

Theorem C17_env_entry_recognised : forall k v, env_var_ok k (env_entry k v) = true.
Proof. exact env_entry_ok. Qed.
Print Assumptions C17_env_entry_recognised.

(* values consisting of characters of the class of the source expression pass unchanged *)
Theorem C17_sanitize_keeps_harmless : forall v, forallb (fun c => mem_n c GoFacts.gf_re_bad_chars_class) v = true -> sanitize v = v.
Proof. exact sanitize_id. Qed.
Print Assumptions C17_sanitize_keeps_harmless.

(* on ASCII values the replacement is byte-wise: every byte outside the class becomes exactly one underscore *)
Theorem C17_sanitize_ascii : forall v, forallb (fun c => c <? 128) v = true ->
  sanitize v = map (fun c => if mem_n c GoFacts.gf_re_bad_chars_class then c else 95) v.
Proof. exact sanitize_ascii. Qed.
Print Assumptions C17_sanitize_ascii.

(* dumpScriptConf: for every interface configuration (every router/address/netmask/DNS/MTU/lease text, every domain
   name) exactly the seven variables IPV4_ROUTER, IPV4_ADDRESS, NETMASK, DOMAIN_NAME, DNS_LIST, MTU, LEASE_SEC, in
   this order, each with a safe value *)
Theorem C17_script_env : forall c, script_env_ok (dump_script_conf c) = true.
Proof. exact dump_script_conf_ok. Qed.
Print Assumptions C17_script_env.

Theorem C17_script_env_entries : forall c e, In e (dump_script_conf c) ->
  exists k s, In k s_keys /\ e = s_psa ++ k ++ [61] ++ s /\ Forall (fun x => env_safe x = true) s.
Proof. exact dump_script_conf_entries. Qed.
Print Assumptions C17_script_env_entries.

(* resolv.conf: for EVERY environment (any entries, duplicates, entries without "=") a written buffer is in the
   grammar  header ["search " host-token "\n"] ("nameserver " num-token "\n")*  with non-empty tokens over
   [A-Za-z0-9.-] and [0-9.] respectively, and carries at least one nameserver line *)
Theorem C17_render_grammar : forall env f, render env = Some f ->
  resolv_file f /\
  exists dom nss, f = spec_file dom nss /\ nss <> [] /\ (forall d, dom = Some d -> token host_char d) /\ Forall (token num_char) nss.
Proof. exact render_grammar. Qed.
Print Assumptions C17_render_grammar.

Theorem C17_token_chars :
  (forall c, host_char c = true <-> (65 <= c <= 90 \/ 97 <= c <= 122 \/ 48 <= c <= 57 \/ c = 46 \/ c = 45)) /\
  (forall c, num_char c = true <-> (48 <= c <= 57 \/ c = 46)).
Proof. exact token_chars_meaning. Qed.
Print Assumptions C17_token_chars.

(* the file is left untouched exactly when no entry PSA_DHCPC_DNS_LIST=... has a comma separated piece that is a
   non-empty dotted-numeric token *)
Theorem C17_render_untouched_iff : forall env,
  render env = None <->
  (forall e v t, In e env -> strip_prefix (s_key_dns ++ [61]) e = Some v -> In t (pieces v) -> is_token num_char t = false).
Proof. exact render_none_iff. Qed.
Print Assumptions C17_render_untouched_iff.

(* complete functional description: the last valid domain, all valid name-server tokens in order *)
Theorem C17_render_is_spec : forall env, render env = spec_render env.
Proof. exact render_is_spec. Qed.
Print Assumptions C17_render_is_spec.

(* the boolean recogniser run on the files written by the real binary decides the inductive grammar, and the
   grammar is the set of files built from tokens *)
Theorem C17_grammar_recogniser : forall f, resolv_ok f = true <-> resolv_file f.
Proof. exact resolv_ok_iff. Qed.
Print Assumptions C17_grammar_recogniser.

Theorem C17_grammar_constructor : forall f,
  resolv_file f <-> exists dom nss, f = spec_file dom nss /\ (forall d, dom = Some d -> token host_char d) /\ Forall (token num_char) nss.
Proof. exact resolv_file_iff_spec_file. Qed.
Print Assumptions C17_grammar_constructor.

(* composition: for every interface configuration content and every surrounding environment, in-process (render)
   or through the process environment (syshook = render after the runtime's duplicate-key rule), the script
   environment is safe and a written file is in the grammar *)
Theorem C17_compose : forall base c f,
  render (base ++ dump_script_conf c) = Some f \/ syshook (base ++ dump_script_conf c) = Some f ->
  script_env_ok (dump_script_conf c) = true /\ resolv_file f /\ resolv_ok f = true /\
  exists dom nss, f = spec_file dom nss /\ nss <> [] /\ (forall d, dom = Some d -> token host_char d) /\ Forall (token num_char) nss.
Proof. exact compose_grammar. Qed.
Print Assumptions C17_compose.

(* ... and its content depends only on the sanitised domain name and the sanitised DNS list *)
Theorem C17_compose_content : forall c,
  render (dump_script_conf c) =
  spec_render [s_key_domain ++ [61] ++ sanitize (ic_domain c); s_key_dns ++ [61] ++ sanitize (join_with 44 (ic_dns c))].
Proof. exact compose_content. Qed.
Print Assumptions C17_compose_content.

Example C17_nonvacuous :
  (* "x\nnameserver 6.6.6.6" becomes x_nameserver_6.6.6.6 *)
  env_entry [68] [120; 10; 110; 97; 109; 101; 115; 101; 114; 118; 101; 114; 32; 54; 46; 54; 46; 54; 46; 54]
    = s_psa ++ [68; 61; 120; 95; 110; 97; 109; 101; 115; 101; 114; 118; 101; 114; 95; 54; 46; 54; 46; 54; 46; 54] /\
  (* one rune, one underscore: e-acute (C3 A9), a truncated sequence (C3), euro sign followed by a stray continuation byte, a surrogate (ED A0 80) *)
  sanitize [195; 169] = [95] /\ sanitize [195] = [95] /\ sanitize [226; 130; 172; 128] = [95; 95] /\ sanitize [237; 160; 128] = [95; 95; 95] /\
  (* PSA_DHCPC_DNS_LIST=1.1.1.1,x y,8.8.8.8 and PSA_DHCPC_DOMAIN_NAME=a.b give search a.b and two name servers *)
  render [s_key_dns ++ [61; 49; 46; 49; 46; 49; 46; 49; 44; 120; 32; 121; 44; 56; 46; 56; 46; 56; 46; 56]; s_key_domain ++ [61; 97; 46; 98]]
    = Some (spec_file (Some [97; 46; 98]) [[49; 46; 49; 46; 49; 46; 49]; [56; 46; 56; 46; 56; 46; 56]]) /\
  (* a name server followed by a newline is not valid: nothing is written *)
  render [s_key_dns ++ [61; 49; 46; 49; 46; 49; 46; 49; 10]] = None /\
  resolv_ok (spec_file None [[49; 46; 49]]) = true /\ resolv_ok (spec_file None [[49; 32; 49]]) = false /\
  (* composition on a hostile domain name x\ny: it becomes x_y, which is no hostname token: no search line, the name server survives *)
  render (dump_script_conf (ifconfig_v4 [10; 0; 0; 1] [10; 0; 0; 7] [255; 255; 255; 0] [120; 10; 121] [[9; 9; 9; 9]] 1500 3600))
    = Some (spec_file None [[57; 46; 57; 46; 57; 46; 57]]).
Proof. vm_compute. repeat split. Qed.
