(* C14 — The client advances only on replies that are genuinely for its transaction.
   Statements only; every proof is `exact <lemma>`.

   catch_reply own w p  models one iteration of the receive loop catchReply (lib/client/dclient/netio.go) with the
   verifier of lib/client/verify for the wait kind w: RxAccept m o = the loop returns (m, o, nil), RxNack = it returns
   errWasNack, RxIgnore = `continue`.  spec_accept / spec_nack (coq/spec/SpecClient.v) are the property's conjunction
   read directly off the raw bytes: IPv4 well-formed with protocol 17, UDP well-formed to port 68, BOOTP message
   decodable, chaddr = own hardware address, xid = the one in flight, option 53 = OFFER resp. ACK, yiaddr and option 54
   neither 0 nor broadcast (option 54 present with 4 bytes), option 3 with at least one address, option 51 >= 60 s, and
   while selecting/renewing option 54 = the chosen server and yiaddr = the offered address; while rebinding any server,
   yiaddr = the leased address. *)
From PSA Require Import model.Bytes model.Layer model.Dhcp spec.SpecCodec spec.SpecClient model.ClientRx model.Tmpl proofs.ClientRxProofs.
Open Scope N_scope.

(* For ALL byte strings p, hardware addresses and wait states: the packet is taken as the awaited OFFER/ACK exactly when
   the conjunction holds (so no condition is missing and none is vacuous), and what is handed on is that message. *)
Theorem C14_accept_iff : forall own w p m o,
  catch_reply own w p = RxAccept m o <->
  spec_accept own w p = true /\ dhcp_decode (udp_payload (ip_payload p)) = Ok m /\ o = decode_options (d_options m).
Proof. exact accept_iff. Qed.
Print Assumptions C14_accept_iff.

Theorem C14_accept_iff_exists : forall own w p, (exists m o, catch_reply own w p = RxAccept m o) <-> spec_accept own w p = true.
Proof. exact accept_iff_exists. Qed.
Print Assumptions C14_accept_iff_exists.

(* A NAK aborts exactly when it is decodable UDP to port 68, carries the own hardware address, and an ACK is awaited. *)
Theorem C14_nack_iff : forall own w p m o,
  catch_reply own w p = RxNack m o <->
  spec_nack own w p = true /\ dhcp_decode (udp_payload (ip_payload p)) = Ok m /\ o = decode_options (d_options m).
Proof. exact nack_iff. Qed.
Print Assumptions C14_nack_iff.

Theorem C14_nack_iff_exists : forall own w p, (exists m o, catch_reply own w p = RxNack m o) <-> spec_nack own w p = true.
Proof. exact nack_iff_exists. Qed.
Print Assumptions C14_nack_iff_exists.

(* reading R4: while waiting for an OFFER a NAK is one of the other packets *)
Theorem C14_no_nack_while_selecting : forall own w p m o, w_kind w = KOffer -> catch_reply own w p <> RxNack m o.
Proof. exact no_nack_while_selecting. Qed.
Print Assumptions C14_no_nack_while_selecting.

(* Every other packet is ignored; no byte string makes the filter index outside its input. *)
Theorem C14_ignore_otherwise : forall own w p, spec_accept own w p = false -> spec_nack own w p = false -> catch_reply own w p = RxIgnore.
Proof. exact ignore_otherwise. Qed.
Print Assumptions C14_ignore_otherwise.

Theorem C14_no_panic : forall own w p, catch_reply own w p <> RxPanic.
Proof. exact catch_reply_no_panic. Qed.
Print Assumptions C14_no_panic.

Theorem C14_verdicts_exclusive : forall own w p, spec_accept own w p = true -> spec_nack own w p = true -> False.
Proof. exact accept_nack_exclusive. Qed.
Print Assumptions C14_verdicts_exclusive.

(* The receive loop over any sequence of packets: every packet before the one that ends it satisfies neither
   specification, the ending packet is judged as above, and the loop never panics. *)
Theorem C14_loop : forall own w pkts i x, catch_loop own w pkts = (i, x) ->
  x <> RxPanic /\
  (forall j q, (j < N.to_nat i)%nat -> nth_error pkts j = Some q -> spec_accept own w q = false /\ spec_nack own w q = false) /\
  (x <> RxIgnore -> exists q, nth_error pkts (N.to_nat i) = Some q /\ catch_reply own w q = x).
Proof. exact catch_loop_first. Qed.
Print Assumptions C14_loop.

(* non-vacuity: a concrete ACK is accepted while renewing and while rebinding; the same ACK from another server is
   accepted only while rebinding; with a 59-second lease, to port 67, or for another hardware address it is ignored;
   a NAK aborts while renewing and is ignored while waiting for an OFFER. *)
Example C14_nonvacuous :
  let mac := [2; 0; 0; 0; 0; 9] in
  let reply typ sid lease port chaddr :=
    let m := {| d_op := 2; d_htype := 1; d_hops := 0; d_xid := 305419896; d_secs := 0; d_flags := 0;
                d_ciaddr := 0; d_yiaddr := 167772170; d_siaddr := 0; d_giaddr := 0; d_chaddr := chaddr;
                d_sname := zeros 64; d_file := zeros 128; d_cookie := 1669485411;
                d_options := [(53, [typ]); (54, put32 sid); (51, put32 lease); (1, [255; 255; 255; 0]); (3, [10; 0; 0; 1])] |} in
    match ipv4_assemble {| ip_id := 1; ip_flags := 0; ip_ttl := 64; ip_proto := 17; ip_csum := 0; ip_src := sid; ip_dst := 4294967295;
                           ip_data := udp_assemble {| udp_sport := 67; udp_dport := port; udp_data := dhcp_assemble m |} |} with
    | Ok p => p | _ => [] end in
  let w k := {| w_kind := k; w_xid := 305419896; w_yiaddr := 167772170; w_sid := Some 167772161 |} in
  let verdict k p := match catch_reply mac (w k) p with RxIgnore => 0 | RxAccept _ _ => 1 | RxNack _ _ => 2 | RxPanic => 3 end in
  verdict KRenewing (reply 5 167772161 3600 68 mac) = 1 /\ spec_accept mac (w KRenewing) (reply 5 167772161 3600 68 mac) = true /\
  verdict KRebinding (reply 5 167772162 3600 68 mac) = 1 /\ verdict KRenewing (reply 5 167772162 3600 68 mac) = 0 /\
  verdict KOffer (reply 2 167772161 60 68 mac) = 1 /\ verdict KOffer (reply 2 167772161 59 68 mac) = 0 /\
  verdict KRenewing (reply 5 167772161 3600 67 mac) = 0 /\ verdict KRenewing (reply 5 167772161 3600 68 [2; 0; 0; 0; 0; 8]) = 0 /\
  verdict KRenewing (reply 6 167772161 0 68 mac) = 2 /\ spec_nack mac (w KRenewing) (reply 6 167772161 0 68 mac) = true /\
  verdict KOffer (reply 6 167772161 0 68 mac) = 0.
Proof. vm_compute. repeat split. Qed.
