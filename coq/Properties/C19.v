(* C19 - No sockets or goroutines leak, and shutdown is prompt  (PARTIAL: see tools/manifest_text.py).
   Statements only; every proof is `exact <lemma>`.
   Model: model/Res.v - every routine of /repo that opens a socket as a process over Open/Close/Spawn/Write/Wait
   events with the control structure of the Go code (each open/write failure branch, each cancellation point), and a
   semantics that runs a pool of goroutines under an ORACLE: a list of choices (which goroutine moves, whether its
   open/write fails, which way data-dependent branches go, when packets arrive, which timer or timeout fires, when the
   root context is cancelled).  All theorems quantify over all oracles. *)
From Coq Require Import List NArith Bool Arith.
Import ListNotations.
From PSA Require Import gen.GoFacts model.Res proofs.ResProofs.
Local Open Scope nat_scope.

(* The discipline [wt]: a goroutine halts only when it is not responsible for an open socket, closes only a socket it
   is responsible for, blocks in Read only on a socket another goroutine is responsible for.  For EVERY program obeying
   it and EVERY oracle: no Close ever hits a socket that is not open (none closed twice), opens = closes + sockets
   still open, and when every goroutine has returned every socket opened has been closed. *)
Theorem C19_balance : forall p, wt None false p = true -> forall cs,
  let s := run (init p) cs in
  dbl (gl s) = false /\ opens s = closes s + length (live (gl s)) /\ NoDup (live (gl s)) /\
  (terminated s = true -> opens s = closes s /\ live (gl s) = []).
Proof. exact balance. Qed.
Print Assumptions C19_balance.

(* the server (Run + closer goroutine + one handler goroutine per packet: handleMsg, handleDiscover with a search over
   any number of candidates, handleRequest, arpVerify with gf_arp_tries Pings, sendUnicast) and the client (Run: state
   loop, advanceState with sendMessage/sendSocket/catchReply, ARP check, panicReset, limiter) obey the discipline *)
Theorem C19_server_disciplined : forall cands, wt None false (server_run (handler cands)) = true /\ lok (server_run (handler cands)) = true.
Proof. exact server_disciplined. Qed.
Print Assumptions C19_server_disciplined.

Theorem C19_client_disciplined : wt None false client_run = true /\ lok client_run = true.
Proof. exact client_disciplined. Qed.
Print Assumptions C19_client_disciplined.

(* the routines the fault-injection runs call on their own *)
Theorem C19_routines_disciplined :
  (forall uc, wt None false (send_message uc) = true /\ lok (send_message uc) = true) /\
  (forall uc, wt None false (advance uc Halt Halt Halt) = true /\ lok (advance uc Halt Halt Halt) = true) /\
  (forall n, wt None false (arp_verify n reply reply) = true /\ lok (arp_verify n reply reply) = true).
Proof. exact (conj send_message_disciplined (conj advance_disciplined arp_verify_disciplined)). Qed.
Print Assumptions C19_routines_disciplined.

(* hence: server and client, every oracle *)
Theorem C19_server_sockets_balanced : forall cands cs,
  let s := run (init (server_run (handler cands))) cs in
  dbl (gl s) = false /\ opens s = closes s + length (live (gl s)) /\ NoDup (live (gl s)) /\
  (terminated s = true -> opens s = closes s /\ live (gl s) = []).
Proof. exact (fun cands => balance _ (proj1 (server_disciplined cands))). Qed.
Print Assumptions C19_server_sockets_balanced.

Theorem C19_client_sockets_balanced : forall cs,
  let s := run (init client_run) cs in
  dbl (gl s) = false /\ opens s = closes s + length (live (gl s)) /\ NoDup (live (gl s)) /\
  (terminated s = true -> opens s = closes s /\ live (gl s) = []).
Proof. exact (balance _ (proj1 client_disciplined)). Qed.
Print Assumptions C19_client_sockets_balanced.

(* Prompt shutdown.  After cancel() - whatever happened before (any oracle cs1) - if the environment stays silent (no
   further packet, timer or timeout: a quiet oracle cs2) the whole pool makes at most [cost s] further steps, where
   [cost] is read off the state at the instant of cancellation (sum over the goroutines of the longest path to their
   return along done-branches), and at most (goroutines alive) x 2 x (size of the program text) in closed form.
   No wait on a timer is part of such a path except Sleep (the server's 50 ms reply delay); since the repair of F11 the limiter's 20 s pause is a select on the context too. *)
Theorem C19_shutdown_bound : forall p, lok p = true -> forall cs1 cs2,
  let s := exec (run (init p) cs1) CCancel in
  forallb quiet_choice cs2 = true -> nsteps s cs2 <= cost s /\ nsteps s cs2 <= length (procs s) * (2 * size p).
Proof. exact (fun p H cs1 cs2 Hq => conj (shutdown_bound p H cs1 cs2 Hq) (shutdown_bound_static p H cs1 cs2 Hq)). Qed.
Print Assumptions C19_shutdown_bound.

(* ... and it never gets stuck before every goroutine has returned (no goroutine left blocked on a socket nobody
   closes, on a context nobody cancels): while some goroutine has not returned, some goroutine can move *)
Theorem C19_no_goroutine_stuck : forall p, wt None false p = true -> forall cs,
  let s := run (init p) cs in rootc (gl s) = true -> terminated s = false ->
  exists i, exec_opt s (CStep i false false) <> None.
Proof. exact no_goroutine_stuck. Qed.
Print Assumptions C19_no_goroutine_stuck.

(* the deterministic scheduler that evaluates the model on observed histories only produces runs of the semantics *)
Theorem C19_scheduler_is_a_run : forall fuel s bs evs, exists cs, drive fuel s bs evs = run s cs.
Proof. exact drive_is_run. Qed.
Print Assumptions C19_scheduler_is_a_run.

(* exact open counts of histories: summary = [opens; closes; all returned; double close; goroutines ever started].
   A probed DISCOVER answered with an OFFER after one unanswered probe costs 3 x (1 receive + 1 send) + 1 unicast
   send = 7 opens on top of the server's receive socket *)
Theorem C19_count_probed_discover :
  hist (server_run (handler 2)) [false; true; false; false; true; true; true; true] [2; 0; 0; 0; 3] = [8; 8; 1; 0; 9]%N.
Proof. exact count_probed_discover. Qed.
Print Assumptions C19_count_probed_discover.

Theorem C19_count_other_histories :
  hist (server_run (handler 2)) [] [3] = [1; 1; 1; 0; 2]%N /\
  hist (server_run (handler 2)) [false; true; false; false; true; false; true] [2; 3] = [2; 2; 1; 0; 3]%N /\
  hist (server_run (handler 2)) [false; true; true; true; true; true; false; true] [2; 1; 3] = [4; 4; 1; 0; 5]%N /\
  hist (server_run (handler 2)) [false; true; true; true; false] [2; 3] = [2; 2; 1; 0; 3]%N /\
  hist (obs_client [(1, 0); (1, 0); (0, 0); (2, 2)]) [] (obs_client_events [(1, 0); (1, 0); (0, 0); (2, 2)]) = [12; 12; 1; 0; 13]%N.
Proof. exact (conj count_idle_server (conj count_bound_discover (conj count_request_ack_own_reply (conj count_request_nak count_obs_client)))). Qed.
Print Assumptions C19_count_other_histories.

(* the Close calls of the source are where the model has them (fact regenerated from /repo on every run) *)
Theorem C19_close_sites_as_modelled : gf_res_close_sites = true.
Proof. exact cf_res_close_sites. Qed.
Print Assumptions C19_close_sites_as_modelled.

Example C19_nonvacuous :
  wt None false (server_run (handler 3)) = true /\ wt None false (Open KUcSend Halt Halt) = false /\
  wt None false (Open KIpRecv (Read Halt Halt) Halt) = false /\
  opens (drive 4000 (init (server_run (handler 2))) [false; true; false; false; true; true; true; true] [2; 0; 0; 0; 3]) = 8 /\
  cost (exec (drive 4000 (init (server_run (handler 2))) [] []) CCancel) = 4.
Proof. vm_compute. repeat split; reflexivity. Qed.
