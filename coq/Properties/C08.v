(* C08 — Addresses in use by another host are not handed out.  Statements only. *)
From PSA Require Import gen.GoFacts model.Bytes model.Clients model.Ipdb model.Dhcp spec.SpecTable spec.SpecIpdb model.Server
  proofs.TableProofs proofs.ServerProofs.
From PSA Require Import spec.Monitors.
From PSA Require Import spec.WireHyps spec.WireExample proofs.WireProofs proofs.WireInv proofs.WireLease proofs.WireSnap proofs.WireHypsProofs proofs.WireExampleProofs.
Open Scope N_scope.

(* only answers whose sender address equals the probed address count; a foreign answer inside the probe
   window blocks; an answer from the requester's own hardware address, or silence, blocks nothing *)
Theorem C08_probe_semantics : forall arp mac ip,
  (fst (probe_outcome arp mac ip) = false <->
   exists r, find_resp ip arp = Some r /\ ar_ip r = ip /\ (ar_delay r < arp_tries * arp_timeout)%Z /\ ar_mac r <> mac).
Proof. exact probe_semantics. Qed.
Print Assumptions C08_probe_semantics.

(* each probe ends within arp_tries x arp_timeout (3 x 200 ms, both read from the source by gofacts) *)
Theorem C08_probe_bounded : forall arp mac ip, (forall r, In r arp -> (0 <= ar_delay r)%Z) ->
  (0 <= snd (probe_outcome arp mac ip) <= arp_tries * arp_timeout)%Z.
Proof. exact probe_bounded. Qed.
Print Assumptions C08_probe_bounded.

(* an address that fails the probe is never picked for a client without binding: every search result passed it *)
Theorem C08_never_picked : forall x perm c pr now sg d t a now',
  wf_ranges x -> (forall a, (0 <= snd (pr a))%Z) -> Forall (fun v => v <= dyn_to x - dyn_from x) perm ->
  bound_ip now d t = None -> t_find_ip x perm c pr now sg d t = (Some a, now') -> fst (pr a) = true.
Proof. exact probe_never_picked. Qed.
Print Assumptions C08_never_picked.

(* a REQUEST for an address a foreign host answers for is never acknowledged: the verdict is NAK *)
Theorem C08_request_nak : forall c src dst o lease,
  classify_request c dst src o = Some lease -> in_managed_range (c_db c) (Some lease) = true ->
  request_verdict c src dst o (Some lease) false = RNak.
Proof. exact request_nak_on_conflict. Qed.
Print Assumptions C08_request_nak.

(* ON THE WIRE, over whole histories: on every accepted history (at most one ARP responder per address in a round) mon_C08 holds -
   an address for which a foreign hardware address answers inside the probe window is not offered to a client without binding
   and is never acknowledged; a REQUEST by the holder of x for x is refused on account of ARP only if a foreign host did answer
   for x in that round (answers about other addresses, from the client itself or after the window do not count); and every reply
   leaves within the bounded time 50 ms + (addresses of the dynamic range + 2) probes after its request arrived.
   The acceptor (model/Server.v) is what every run compares the implementation with, round by round (tag 101); the premises
   are boolean conditions (spec/WireHyps.v) evaluated on every generated history (tag 220, Cxx_premises below); the rounds are
   sequential with a table listing after each (interleavings: the theorems over operation histories above). *)
Theorem C08_on_the_wire : forall c h, cfg_wire_ok c -> cfg_srv_ok c -> durations_ok c -> Forall wf_round h -> snap_times 0%Z h ->
  accepted c h -> mon_C08 c h = true.
Proof. exact accepted_history_c08. Qed.
Print Assumptions C08_on_the_wire.

Theorem C08_premises : forall c h, wire_hyps c h = true -> wire_premises c h.
Proof. exact wire_hyps_premises. Qed.
Print Assumptions C08_premises.

(* the premises hold of, and the acceptor accepts, a recorded history of the real server (OFFER, ACK, NAK on an ARP conflict, silent rounds) *)
Theorem C08_wire_nonvacuous : exists c h, wire_example = Some (c, h) /\ wire_premises c h /\ accepted c h /\
  length h = 6%nat /\ length (events c h) = 2%nat /\ length (flat_map r_outs h) = 3%nat.
Proof. exact wire_example_full. Qed.
Print Assumptions C08_wire_nonvacuous.

Example C08_nonvacuous :
  probe_outcome [{| ar_ip := 12; ar_mac := [9]; ar_delay := 150000000 |}] [1] 12 = (false, 150000000%Z) /\
  probe_outcome [{| ar_ip := 12; ar_mac := [1]; ar_delay := 150000000 |}] [1] 12 = (true, 150000000%Z) /\
  probe_outcome [{| ar_ip := 13; ar_mac := [9]; ar_delay := 150000000 |}] [1] 12 = (true, 600000000%Z) /\
  probe_outcome [{| ar_ip := 12; ar_mac := [9]; ar_delay := 700000000 |}] [1] 12 = (true, 600000000%Z).
Proof. vm_compute. repeat split. Qed.
