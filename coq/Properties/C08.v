(* C08 — Addresses in use by another host are not handed out.  Statements only. *)
From PSA Require Import gen.GoFacts model.Bytes model.Clients model.Ipdb model.Dhcp spec.SpecTable spec.SpecIpdb model.Server
  proofs.TableProofs proofs.ServerProofs.
Open Scope N_scope.

(* only answers whose sender address equals the probed address count; a foreign answer inside the probe
   window blocks; an answer from the requester's own hardware address, or silence, blocks nothing *)
Theorem C08_probe_semantics : forall arp mac ip,
  (fst (probe_outcome arp mac ip) = false <->
   exists r, find_resp ip arp = Some r /\ ar_ip r = ip /\ (ar_delay r < arp_tries * arp_timeout)%Z /\ ar_mac r <> mac).
Proof. exact probe_semantics. Qed.
Print Assumptions C08_probe_semantics.

(* each probe ends within arp_tries x arp_timeout (3 x 200 ms, both read from the source by gofacts) *)
Theorem C08_probe_bounded : forall arp mac ip, (forall r, In r arp -> (0 <= ar_delay r)%Z) ->
  (0 <= snd (probe_outcome arp mac ip) <= arp_tries * arp_timeout)%Z.
Proof. exact probe_bounded. Qed.
Print Assumptions C08_probe_bounded.

(* an address that fails the probe is never picked for a client without binding: every search result passed it *)
Theorem C08_never_picked : forall x perm c pr now sg d t a now',
  wf_ranges x -> (forall a, (0 <= snd (pr a))%Z) -> Forall (fun v => v <= dyn_to x - dyn_from x) perm ->
  bound_ip now d t = None -> t_find_ip x perm c pr now sg d t = (Some a, now') -> fst (pr a) = true.
Proof. exact probe_never_picked. Qed.
Print Assumptions C08_never_picked.

(* a REQUEST for an address a foreign host answers for is never acknowledged: the verdict is NAK *)
Theorem C08_request_nak : forall c src dst o lease,
  classify_request c dst src o = Some lease -> in_managed_range (c_db c) (Some lease) = true ->
  request_verdict c src dst o (Some lease) false = RNak.
Proof. exact request_nak_on_conflict. Qed.
Print Assumptions C08_request_nak.

Example C08_nonvacuous :
  probe_outcome [{| ar_ip := 12; ar_mac := [9]; ar_delay := 150000000 |}] [1] 12 = (false, 150000000%Z) /\
  probe_outcome [{| ar_ip := 12; ar_mac := [1]; ar_delay := 150000000 |}] [1] 12 = (true, 150000000%Z) /\
  probe_outcome [{| ar_ip := 13; ar_mac := [9]; ar_delay := 150000000 |}] [1] 12 = (true, 600000000%Z) /\
  probe_outcome [{| ar_ip := 12; ar_mac := [9]; ar_delay := 700000000 |}] [1] 12 = (true, 600000000%Z).
Proof. vm_compute. repeat split. Qed.
