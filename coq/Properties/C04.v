(* C04 — REQUEST verdicts follow the sender's binding and the message's addressing.  Statements only. *)
From PSA Require Import gen.GoFacts model.Bytes model.Clients model.Ipdb model.Dhcp spec.SpecTable spec.SpecIpdb model.Server
  proofs.ServerProofs.
From PSA Require Import spec.Monitors.
From PSA Require Import spec.WireHyps spec.WireExample proofs.WireProofs proofs.WireInv proofs.WireLease proofs.WireSnap proofs.WireHypsProofs proofs.WireExampleProofs.
Open Scope N_scope.

(* acknowledged only if the sender holds the binding for exactly the designated address, which the ACK carries *)
Theorem C04_ack_only_if_bound : forall c src dst o bound pf ip,
  request_verdict c src dst o bound pf = RAck ip -> bound = Some ip /\ ip = designated src o /\ pf = true.
Proof. exact request_ack_only_if_bound. Qed.
Print Assumptions C04_ack_only_if_bound.

(* names another server / designates an address outside the managed network / unicast to another destination: silence *)
Theorem C04_silent_cases : forall c src dst o bound pf,
  (match o_sid o with Some s => s <> c_self_ip c | None => False end) \/
  in_managed_range (c_db c) (Some (designated src o)) = false \/
  (dst <> bcast_ip /\ dst <> c_self_ip c) ->
  request_verdict c src dst o bound pf = RDrop.
Proof. exact request_silent_cases. Qed.
Print Assumptions C04_silent_cases.

(* selects this server, or renews by unicast to it, for an in-network address the sender is not bound to: NAK *)
Theorem C04_nak_cases : forall c src dst o bound pf,
  ((dst = bcast_ip /\ o_sid o = Some (c_self_ip c) /\ o_reqip o <> None) \/ (dst = c_self_ip c /\ o_sid o = None /\ o_reqip o = None)) ->
  in_managed_range (c_db c) (Some (designated src o)) = true -> bound <> Some (designated src o) ->
  request_verdict c src dst o bound pf = RNak.
Proof. exact request_nak_cases. Qed.
Print Assumptions C04_nak_cases.

(* the model of handleRequest that is run against the implementation answers exactly as this verdict function *)
Theorem C04_handler_follows_verdict : forall c t r src dst m o t',
  accept_request c t r src dst m o = RAcc t' ->
  let duid := get_duid c (d_chaddr m) (o_cid o) in
  match request_verdict c src dst o (bound_ip (r_t r) duid t) (probe_free (r_arp r) (d_chaddr m) (match bound_ip (r_t r) duid t with Some l => l | None => 0 end)) with
  | RDrop => r_outs r = []
  | RNak => exists f, r_outs r = [f] /\ frame_eqb f (reply_nak c m) = true
  | RAck ip => exists f, r_outs r = [f] /\ frame_eqb f (reply_lease c gf_dhcpmsg_MsgTypeAck m ip) = true
  end.
Proof. exact accept_request_follows_verdict. Qed.
Print Assumptions C04_handler_follows_verdict.

(* a message carrying the server's own hardware address, or not a REQUEST/DISCOVER, changes nothing and is not answered *)
Theorem C04_ignored_is_noop : forall c t r, Monitors.handled c (r_pkt r) = false -> r_has_snap r = false ->
  forall t', accept_round c t r = RAcc t' -> t' = t /\ r_outs r = [].
Proof. exact junk_is_noop. Qed.
Print Assumptions C04_ignored_is_noop.

(* ON THE WIRE, over whole histories: on every accepted history mon_C04 holds - for every DHCPREQUEST at most one reply; an ACK
   only if the listing before the packet shows the sender bound to exactly the address the request designates (requested-address
   option, else the source address), and the ACK carries that address; no reply at all when the request bears the server's own
   hardware address, names another server, designates an address outside the managed network or is unicast elsewhere; and a NAK
   whenever a request that selects this server (broadcast, server identifier = this server, requested address) or renews by
   unicast to it (no such options) designates an in-network address the sender is not bound to.
   The acceptor (model/Server.v) is what every run compares the implementation with, round by round (tag 101); the premises
   are boolean conditions (spec/WireHyps.v) evaluated on every generated history (tag 220, Cxx_premises below); the rounds are
   sequential with a table listing after each (interleavings: the theorems over operation histories above). *)
Theorem C04_on_the_wire : forall c h, cfg_wire_ok c -> cfg_srv_ok c -> durations_ok c -> Forall wf_round h -> snap_times 0%Z h ->
  accepted c h -> mon_C04 c h = true.
Proof. exact accepted_history_c04. Qed.
Print Assumptions C04_on_the_wire.

Theorem C04_premises : forall c h, wire_hyps c h = true -> wire_premises c h.
Proof. exact wire_hyps_premises. Qed.
Print Assumptions C04_premises.

(* the premises hold of, and the acceptor accepts, a recorded history of the real server (OFFER, ACK, NAK on an ARP conflict, silent rounds) *)
Theorem C04_wire_nonvacuous : exists c h, wire_example = Some (c, h) /\ wire_premises c h /\ accepted c h /\
  length h = 6%nat /\ length (events c h) = 2%nat /\ length (flat_map r_outs h) = 3%nat.
Proof. exact wire_example_full. Qed.
Print Assumptions C04_wire_nonvacuous.

Example C04_nonvacuous :
  let c := {| c_self_ip := 11; c_self_mac := [2]; c_lease := 60; c_db := {| net_from := 10; net_to := 20; dyn_from := 12; dyn_to := 13; st := empty_store |};
              c_statics := []; c_opts := []; c_default_opts := [] |} in
  let o := {| o_msgtype := 3; o_maxsize := 0; o_mtu := 0; o_reqip := Some 12; o_sid := Some 11; o_bcast := None; o_mask := None;
              o_routers := []; o_dns := []; o_lease := 0; o_renew := 0; o_rebind := 0; o_domain := []; o_cid := []; o_message := []; o_params := [] |} in
  request_verdict c 0 bcast_ip o (Some 12) true = RAck 12 /\ request_verdict c 0 bcast_ip o (Some 13) true = RNak /\
  request_verdict c 0 bcast_ip o None true = RNak /\ request_verdict c 0 19 o (Some 12) true = RDrop.
Proof. vm_compute. repeat split. Qed.
