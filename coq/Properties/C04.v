(* C04 — REQUEST verdicts follow the sender's binding and the message's addressing.  Statements only. *)
From PSA Require Import gen.GoFacts model.Bytes model.Clients model.Ipdb model.Dhcp spec.SpecTable spec.SpecIpdb model.Server
  proofs.ServerProofs.
Open Scope N_scope.

(* acknowledged only if the sender holds the binding for exactly the designated address, which the ACK carries *)
Theorem C04_ack_only_if_bound : forall c src dst o bound pf ip,
  request_verdict c src dst o bound pf = RAck ip -> bound = Some ip /\ ip = designated src o /\ pf = true.
Proof. exact request_ack_only_if_bound. Qed.
Print Assumptions C04_ack_only_if_bound.

(* names another server / designates an address outside the managed network / unicast to another destination: silence *)
Theorem C04_silent_cases : forall c src dst o bound pf,
  (match o_sid o with Some s => s <> c_self_ip c | None => False end) \/
  in_managed_range (c_db c) (Some (designated src o)) = false \/
  (dst <> bcast_ip /\ dst <> c_self_ip c) ->
  request_verdict c src dst o bound pf = RDrop.
Proof. exact request_silent_cases. Qed.
Print Assumptions C04_silent_cases.

(* selects this server, or renews by unicast to it, for an in-network address the sender is not bound to: NAK *)
Theorem C04_nak_cases : forall c src dst o bound pf,
  ((dst = bcast_ip /\ o_sid o = Some (c_self_ip c) /\ o_reqip o <> None) \/ (dst = c_self_ip c /\ o_sid o = None /\ o_reqip o = None)) ->
  in_managed_range (c_db c) (Some (designated src o)) = true -> bound <> Some (designated src o) ->
  request_verdict c src dst o bound pf = RNak.
Proof. exact request_nak_cases. Qed.
Print Assumptions C04_nak_cases.

(* the model of handleRequest that is run against the implementation answers exactly as this verdict function *)
Theorem C04_handler_follows_verdict : forall c t r src dst m o t',
  accept_request c t r src dst m o = RAcc t' ->
  let duid := get_duid c (d_chaddr m) (o_cid o) in
  match request_verdict c src dst o (bound_ip (r_t r) duid t) (probe_free (r_arp r) (d_chaddr m) (match bound_ip (r_t r) duid t with Some l => l | None => 0 end)) with
  | RDrop => r_outs r = []
  | RNak => exists f, r_outs r = [f] /\ frame_eqb f (reply_nak c m) = true
  | RAck ip => exists f, r_outs r = [f] /\ frame_eqb f (reply_lease c gf_dhcpmsg_MsgTypeAck m ip) = true
  end.
Proof. exact accept_request_follows_verdict. Qed.
Print Assumptions C04_handler_follows_verdict.

(* a message carrying the server's own hardware address, or not a REQUEST/DISCOVER, changes nothing and is not answered *)
Theorem C04_ignored_is_noop : forall c t r, Monitors.handled c (r_pkt r) = false -> r_has_snap r = false ->
  forall t', accept_round c t r = RAcc t' -> t' = t /\ r_outs r = [].
Proof. exact junk_is_noop. Qed.
Print Assumptions C04_ignored_is_noop.

Example C04_nonvacuous :
  let c := {| c_self_ip := 11; c_self_mac := [2]; c_lease := 60; c_db := {| net_from := 10; net_to := 20; dyn_from := 12; dyn_to := 13; st := empty_store |};
              c_statics := []; c_opts := []; c_default_opts := [] |} in
  let o := {| o_msgtype := 3; o_maxsize := 0; o_mtu := 0; o_reqip := Some 12; o_sid := Some 11; o_bcast := None; o_mask := None;
              o_routers := []; o_dns := []; o_lease := 0; o_renew := 0; o_rebind := 0; o_domain := []; o_cid := []; o_message := []; o_params := [] |} in
  request_verdict c 0 bcast_ip o (Some 12) true = RAck 12 /\ request_verdict c 0 bcast_ip o (Some 13) true = RNak /\
  request_verdict c 0 bcast_ip o None true = RNak /\ request_verdict c 0 19 o (Some 12) true = RDrop.
Proof. vm_compute. repeat split. Qed.
