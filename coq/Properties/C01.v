(* C01 — An address is never leased to two clients at the same time.  Statements only. *)
From PSA Require Import model.Bytes model.Clients model.Ipdb model.Dhcp spec.SpecTable spec.SpecIpdb model.Server spec.Monitors
  proofs.TableProofs proofs.LeaseProofs proofs.ServerProofs.
From PSA Require Import spec.WireHyps spec.WireExample proofs.WireProofs proofs.WireInv proofs.WireLease proofs.WireHypsProofs proofs.WireExampleProofs spec.WireExample2 proofs.WireExample2Proofs.
Open Scope N_scope.

(* Every execution of the server, whatever the interleaving of its handlers, is a history of the atomic
   operations OfferIP(hold) / HoldClient(hold) / UpdateClient(lease) / lookups on the lease table, with
   arbitrary arguments, clock readings, candidate orders, probe outcomes and cancellations.  For every such
   history: the ghost log of successful reservations (ACKs for the lease L, OFFERs/holds for the hold) is
   exclusive - a reservation of an address is made only strictly after every earlier reservation of that
   address by ANOTHER client has run out (lease resp. hold counted from the database step, which is never
   earlier than the arrival of the request) - and the table invariant LInv holds in the final state. *)
Theorem C01_exclusive_over_all_interleavings : forall L x h, (0 <= L)%Z -> forall t now log,
  sv_ok L h -> LInv L now t log -> excl_log log ->
  let '(t', now', log') := g_run x t now h log in LInv L now' t' log' /\ excl_log log' /\ (now <= now')%Z.
Proof. exact lease_invariants. Qed.
Print Assumptions C01_exclusive_over_all_interleavings.

(* the server starts in a state satisfying the invariant (permanent bindings only, empty log) *)
Theorem C01_initial_state : forall c L now, (0 <= now)%Z -> LInv L now (initial_table c) [].
Proof. exact initial_LInv. Qed.
Print Assumptions C01_initial_state.

(* "other client" (client identifier, or hardware address when none usable is sent; a reserved hardware
   address always counts as that reserved client): the server's key separates exactly these *)
Theorem C01_identity_separates : forall c m1 o1 m2 o2,
  pid c m1 o1 <> pid c m2 o2 -> get_duid c (d_chaddr m1) (o_cid o1) <> get_duid c (d_chaddr m2) (o_cid o2).
Proof. exact identity_separates. Qed.
Print Assumptions C01_identity_separates.

(* while a reservation has not run out the address is bound to that client and to nobody else *)
Theorem C01_reservation_holds : forall L now t log ev, LInv L now t log -> In ev log -> (now <= g_t ev + g_dur ev)%Z ->
  bound_ip now (g_duid ev) t = Some (g_ip ev) /\ bound_duid now (g_ip ev) t = Some (g_duid ev).
Proof. exact reservation_holds. Qed.
Print Assumptions C01_reservation_holds.

(* Link between the model that is run against the implementation and the theorem above: a sequential round that the
   acceptor accepts changes the lease table exactly as a short history of server operations does (round_ops), these are
   server operations at non-decreasing clock readings, hence the invariant and the exclusivity of the reservation log are
   kept by every accepted round - and, by induction, by every accepted sequential history with ordered times. *)
Theorem C01_accepted_round_is_operations : forall c t now r t',
  r_has_snap r = false -> accept_round c t r = RAcc t' -> fst (t_final (c_db c) t now (round_ops c t now r)) = t'.
Proof. exact accepted_round_is_ops. Qed.
Print Assumptions C01_accepted_round_is_operations.

Theorem C01_accepted_round_keeps_invariant : forall c t now log r t',
  r_has_snap r = false -> accept_round c t r = RAcc t' ->
  (now <= r_t r)%Z -> (forall f, In f (r_outs r) -> (r_t r <= of_t f)%Z) ->
  (0 <= hold_ns <= c_lease c)%Z -> (0 <= req_hold_ns <= c_lease c)%Z ->
  LInv (c_lease c) now t log -> excl_log log ->
  let '(t2, now2, log2) := g_run (c_db c) t now (round_ops c t now r) log in
  t2 = t' /\ LInv (c_lease c) now2 t2 log2 /\ excl_log log2 /\ (now <= now2)%Z.
Proof. exact accepted_round_keeps_invariant. Qed.
Print Assumptions C01_accepted_round_keeps_invariant.

(* ON THE WIRE, over whole histories.  For every configuration (distinct reserved hardware addresses and addresses inside
   the network, option lists that fit, hold times not longer than the lease) and every sequence of sequential rounds -
   received byte strings of any content, ARP situations, observed frames with their instants - that the acceptor accepts
   from the initial table, mon_C01 holds: whenever an ACK for an address is sent, every earlier ACK of that address to
   another client (lease counted from the arrival of that client's request) and every earlier OFFER of it to another client
   (hold counted from its DISCOVER) has run out strictly before.  "Another client" is the property's notion (le_pid: reserved
   hardware address, else usable client identifier, else hardware address).  The acceptor is what every run compares the
   implementation with, round by round (tag 101); the premises are evaluated on every generated history (tag 220).
   Proof: the invariant TInv (unique live bindings, ownership, bounded expiries) is kept by every accepted round and
   entries only grow; each OFFER/ACK seen on the wire is backed by a reservation in the table that outlives its hold / lease;
   the database refuses an update while another client's binding of the address is live. *)
Theorem C01_on_the_wire : forall c h, cfg_wire_ok c -> cfg_srv_ok c -> durations_ok c -> Forall wf_round h -> seq_times 0%Z h ->
  accepted c h -> mon_C01 c h = true.
Proof. exact accepted_history_c01. Qed.
Print Assumptions C01_on_the_wire.

Theorem C01_wire_nonvacuous : exists c h, wire_example = Some (c, h) /\
  cfg_wire_ok c /\ cfg_srv_ok c /\ Forall wf_round h /\ seq_times 0%Z h /\ (0 <= hold_ns <= c_lease c)%Z /\ (0 <= req_hold_ns <= c_lease c)%Z /\
  accepted c h /\ length h = 6%nat /\ length (events c h) = 2%nat /\ length (flat_map r_outs h) = 3%nat.
Proof. exact wire_example_premises. Qed.
Print Assumptions C01_wire_nonvacuous.

(* ... and of a history in which two clients compete for one address and time decides (spec/WireExample2.v) *)
Theorem C01_wire_nonvacuous_two_clients : exists c h, wire_example2 = Some (c, h) /\ wire_premises c h /\ accepted c h /\
  length h = 7%nat /\ length (events c h) = 4%nat /\ distinct_pids (events c h) = 2%nat /\ length (flat_map r_outs h) = 6%nat.
Proof. exact wire_example2_full. Qed.
Print Assumptions C01_wire_nonvacuous_two_clients.

Example C01_nonvacuous :
  let x := {| net_from := 10; net_to := 20; dyn_from := 12; dyn_to := 13; st := empty_store |} in
  let h := [(0%Z, OpOffer [0; 1] (fun _ => false) (fun _ => (true, 600%Z)) None [1] 15%Z);
            (1%Z, OpHold (Some 12) [1] 15%Z); (1%Z, OpUpdate (Some 12) [1] 60%Z);
            (5%Z, OpOffer [0; 1] (fun _ => false) (fun _ => (true, 600%Z)) (Some 12) [2] 15%Z);
            (100%Z, OpOffer [0; 1] (fun _ => false) (fun _ => (true, 600%Z)) (Some 12) [3] 15%Z)] in
  sv_ok 60%Z h /\
  map (fun e => (g_ip e, g_duid e, g_t e)) (snd (g_run x [] 0%Z h [])) =
    [(12, [1], 600%Z); (12, [1], 601%Z); (12, [1], 602%Z); (13, [2], 1207%Z); (12, [3], 1907%Z)].
Proof.
  split; [|vm_compute; reflexivity].
  split; repeat constructor; cbn; try lia; intros; cbn; lia.
Qed.
