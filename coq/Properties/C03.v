(* C03 — Static reservations are exclusive and always honoured.  Statements only. *)
From PSA Require Import model.Bytes model.Clients model.Ipdb model.Dhcp spec.SpecTable spec.SpecIpdb model.Server
  proofs.TableProofs proofs.LeaseProofs proofs.ServerProofs.
From PSA Require Import spec.Monitors.
From PSA Require Import spec.WireHyps spec.WireExample proofs.WireProofs proofs.WireInv proofs.WireHypsProofs proofs.WireExampleProofs spec.WireExample3 proofs.WireExample3Proofs.
Open Scope N_scope.

(* a reserved hardware address is served under its internal identity whatever client identifier it sends *)
Theorem C03_reserved_identity : forall c mac cid ip, reserved_ip c mac = Some ip -> get_duid c mac cid = sduid mac.
Proof. exact reserved_identity. Qed.
Print Assumptions C03_reserved_identity.

(* ... and no other hardware address, with whatever identifier, obtains that identity *)
Theorem C03_identity_not_forgeable : forall c mac cid mac', get_duid c mac cid = sduid mac' -> mac = mac'.
Proof. exact identity_not_forgeable. Qed.
Print Assumptions C03_identity_not_forgeable.

(* the reservation is a permanent binding: after ANY history (however long the server has been running,
   whatever other clients did) a lookup of the reserved client returns the reserved address and the address
   belongs to it *)
Theorem C03_reservation_permanent : forall h x t now p e,
  clock_ok h -> unique_live now t -> nth_error t p = Some e -> e_perm e = true ->
  t_lookup_by_duid (snd (t_final x t now h)) (e_duid e) (fst (t_final x t now h)) = Some (e_ip e) /\
  bound_duid (snd (t_final x t now h)) (e_ip e) (fst (t_final x t now h)) = Some (e_duid e).
Proof. exact permanent_forever. Qed.
Print Assumptions C03_reservation_permanent.

(* every DISCOVER of the reserved client finds exactly its address, whatever it suggests *)
Theorem C03_always_offered : forall h x t0 now0 p e perm c pr sg,
  clock_ok h -> unique_live now0 t0 -> nth_error t0 p = Some e -> e_perm e = true ->
  let t := fst (t_final x t0 now0 h) in let now := snd (t_final x t0 now0 h) in
  t_find_ip x perm c pr now sg (e_duid e) t = (Some (e_ip e), now).
Proof. exact permanent_offered. Qed.
Print Assumptions C03_always_offered.

(* a successful reservation is for the reserved address iff it is by the reserved client *)
Theorem C03_exclusive : forall h x t0 now0 p e now ip d ttl ok t' n (hold : bool),
  clock_ok h -> unique_live now0 t0 -> nth_error t0 p = Some e -> e_perm e = true ->
  let t := fst (t_final x t0 now0 h) in
  (snd (t_final x t0 now0 h) <= now)%Z -> to_uip x ip = Some n ->
  (if hold then t_hold_client x now ip d ttl t else t_update_client x now ip d ttl t) = (ok, t') -> ok = true ->
  (e_ip e = n <-> e_duid e = d).
Proof. exact permanent_exclusive. Qed.
Print Assumptions C03_exclusive.

(* ON THE WIRE, over whole histories (premises as in C02_on_the_wire): on every accepted history mon_C03 holds, i.e.
   (safety) every OFFER/ACK to a reserved hardware address carries its reserved address and no OFFER/ACK to anybody else
   carries a reserved address, and (response) every broadcast DISCOVER without server identifier from a reserved hardware
   address other than the server's own is answered in its round by an OFFER of the reserved address - whatever client
   identifier it sends, whatever it suggests, whatever happened before, however long the server has been running. *)
Theorem C03_on_the_wire : forall c h, cfg_wire_ok c -> cfg_srv_ok c -> Forall wf_round h -> seq_times 0%Z h -> accepted c h -> mon_C03 c h = true.
Proof. exact accepted_history_c03. Qed.
Print Assumptions C03_on_the_wire.

(* the premises of the wire theorem are met by a recorded history of a client with a reserved address and settings of its own
   (spec/WireExample3.v) *)
Theorem C03_wire_nonvacuous_reservation : exists c h, wire_example3 = Some (c, h) /\ wire_premises c h /\ accepted c h /\
  length h = 4%nat /\ length (events c h) = 4%nat /\
  exists mac ip os, c_statics c = [(mac, ip)] /\ Forall (fun e => le_ip e = ip /\ le_mac e = mac) (events c h) /\
                    assoc mac (c_opts c) = Some os /\ os <> c_default_opts c.
Proof. exact wire_example3_full. Qed.
Print Assumptions C03_wire_nonvacuous_reservation.

Example C03_nonvacuous :
  let x := {| net_from := 10; net_to := 20; dyn_from := 12; dyn_to := 13; st := empty_store |} in
  let t0 := [{| e_ip := 15; e_duid := sduid [2; 1]; e_until := 0; e_perm := true |}] in
  let h := [(5%Z, OpOffer [0; 1] (fun _ => false) (fun _ => (true, 0%Z)) (Some 15) [7] 15%Z); (100%Z, OpLookup [7])] in
  t_find_ip x [0; 1] (fun _ => false) (fun _ => (true, 0%Z)) (snd (t_final x t0 0%Z h)) (Some 12) (sduid [2; 1]) (fst (t_final x t0 0%Z h))
    = (Some 15, 105%Z).
Proof. vm_compute. reflexivity. Qed.
