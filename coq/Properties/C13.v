(* C13 — Emitted IPv4/UDP/ARP packets are valid; decoders are strict about lengths.
   This file contains statements only; every proof is `exact <lemma>`. *)
From PSA Require Import model.Bytes model.Checksum model.Layer spec.SpecCodec proofs.ChecksumProofs proofs.LayerProofs.
Open Scope N_scope.

(* The checksum folding is the RFC 1071 end-around-carry reduction, for every 32-bit accumulator. *)
Theorem C13_fold16 : forall a, a < 4294967296 ->
  fold16 a <= 65535 /\ fold16 a mod 65535 = a mod 65535 /\ (fold16 a = 0 <-> a = 0).
Proof. exact fold16_spec. Qed.
Print Assumptions C13_fold16.

(* Every assembled IPv4 packet (any id/flags/ttl/protocol/addresses, any payload up to the
   datagram maximum) has version 4, IHL 5, total length = its size and a verifying header checksum. *)
Theorem C13_ipv4_header_valid : forall h, wf_ipv4 h = true ->
  exists p, ipv4_assemble h = Ok p /\ len p = 20 + len (ip_data h) /\ ipv4_hdr_ok p = true.
Proof. exact ipv4_assemble_valid. Qed.
Print Assumptions C13_ipv4_header_valid.

(* Every UDP datagram assembled into IPv4 (any ports, any payload length, odd or even, up to
   65507 bytes, any address pair) carries a correct UDP length and a checksum that verifies
   against the RFC 768 pseudo header. *)
Theorem C13_udp_checksum_valid : forall h u,
  wf_ipv4 h = true -> wf_udp u = true -> ip_proto h = 17 -> ip_data h = udp_assemble u ->
  exists p c, ipv4_assemble h = Ok p /\ c < 65536 /\
    skipn 20 p = (put16 (udp_sport u) ++ put16 (udp_dport u) ++ put16 (8 + len (udp_data u))) ++ put16 c ++ udp_data u /\
    udp_ok (ip_src h) (ip_dst h) (skipn 20 p) = true.
Proof. exact ipv4_udp_assemble_valid. Qed.
Print Assumptions C13_udp_checksum_valid.

(* Decoding an assembled packet returns the original addresses, protocol, TTL, id, flags and
   (outside the UDP checksum bytes) payload. *)
Theorem C13_ipv4_roundtrip : forall h p, wf_ipv4 h = true -> ipv4_assemble h = Ok p ->
  exists rest, decode_ipv4 p =
    Ok {| ip_id := ip_id h; ip_flags := ip_flags h; ip_ttl := ip_ttl h; ip_proto := ip_proto h;
          ip_csum := asm_c h; ip_src := ip_src h; ip_dst := ip_dst h; ip_data := rest |}
    /\ length rest = length (ip_data h)
    /\ (ip_proto h <> 17 \/ len (ip_data h) < 8 -> rest = ip_data h).
Proof. exact decode_ipv4_assemble. Qed.
Print Assumptions C13_ipv4_roundtrip.

Theorem C13_udp_in_ipv4_roundtrip : forall h u p, wf_ipv4 h = true -> wf_udp u = true -> ip_proto h = 17 ->
  ip_data h = udp_assemble u -> ipv4_assemble h = Ok p ->
  exists q, decode_ipv4 p = Ok q /\ ip_src q = ip_src h /\ ip_dst q = ip_dst h /\ ip_proto q = 17 /\ ip_ttl q = ip_ttl h /\
            decode_udp (ip_data q) = Ok u.
Proof. exact decode_udp_in_ipv4. Qed.
Print Assumptions C13_udp_in_ipv4_roundtrip.

Theorem C13_udp_roundtrip : forall u, wf_udp u = true -> decode_udp (udp_assemble u) = Ok u.
Proof. exact decode_udp_assemble. Qed.
Print Assumptions C13_udp_roundtrip.

Theorem C13_arp_roundtrip : forall a, wf_arp a = true -> decode_arp (arp_assemble a) = Ok a.
Proof. exact decode_arp_assemble. Qed.
Print Assumptions C13_arp_roundtrip.

(* Strictness: a decoder accepts only when its length field equals the bytes supplied, and the
   payload it exposes is exactly the suffix of the input. *)
Theorem C13_ipv4_strict : forall b p, decode_ipv4 b = Ok p ->
  let ihl := nth 0 b 0 mod 16 * 4 in
  nth 0 b 0 / 16 = 4 /\ 20 <= ihl <= len b /\ be16 (nth 2 b 0) (nth 3 b 0) = len b /\ ip_data p = skipn (N.to_nat ihl) b.
Proof. exact decode_ipv4_strict. Qed.
Print Assumptions C13_ipv4_strict.

Theorem C13_udp_strict : forall b u, decode_udp b = Ok u ->
  8 <= len b /\ be16 (nth 4 b 0) (nth 5 b 0) = len b /\ udp_data u = skipn 8 b /\
  udp_sport u = be16 (nth 0 b 0) (nth 1 b 0) /\ udp_dport u = be16 (nth 2 b 0) (nth 3 b 0).
Proof. exact decode_udp_strict. Qed.
Print Assumptions C13_udp_strict.

Theorem C13_arp_strict : forall b a, decode_arp b = Ok a -> len b = 28.
Proof. exact decode_arp_strict. Qed.
Print Assumptions C13_arp_strict.

(* No decoder ever indexes outside the bytes supplied, for any byte string of any length. *)
Theorem C13_no_panic : forall b, decode_ipv4 b <> Panic /\ decode_udp b <> Panic /\ decode_arp b <> Panic.
Proof. exact (fun b => conj (decode_ipv4_no_panic b) (conj (decode_udp_no_panic b) (decode_arp_no_panic b))). Qed.
Print Assumptions C13_no_panic.

(* non-vacuity: a concrete DHCP-sized datagram meets the hypotheses and verifies *)
Example C13_nonvacuous :
  let u := {| udp_sport := 67; udp_dport := 68; udp_data := [1; 2; 3; 4; 5] |} in
  let h := {| ip_id := 7; ip_flags := 0; ip_ttl := 64; ip_proto := 17; ip_csum := 0;
              ip_src := 167772161; ip_dst := 4294967295; ip_data := udp_assemble u |} in
  wf_ipv4 h = true /\ wf_udp u = true /\
  match ipv4_assemble h with Ok p => ipv4_hdr_ok p && udp_ok (ip_src h) (ip_dst h) (skipn 20 p) | _ => false end = true.
Proof. vm_compute. repeat split. Qed.
