(* C10 — Malformed or irrelevant traffic never crashes or perturbs the daemons (server side and decoders).  Statements only. *)
From PSA Require Import model.Bytes model.Layer model.Dhcp model.Server spec.Monitors proofs.LayerProofs proofs.DhcpProofs proofs.ServerProofs.
Open Scope N_scope.

(* no byte string of any length makes a decoder of the receive path index outside its input *)
Theorem C10_receive_path_no_panic : forall b, decode_ipv4 b <> Panic /\ decode_udp b <> Panic /\ dhcp_decode b <> Panic.
Proof. exact receive_path_no_panic. Qed.
Print Assumptions C10_receive_path_no_panic.

Theorem C10_arp_no_panic : forall b, decode_arp b <> Panic.
Proof. exact decode_arp_no_panic. Qed.
Print Assumptions C10_arp_no_panic.

(* any hardware-address length: lengths above 16 are rejected, the others never read beyond the 16-byte field *)
Theorem C10_hlen : forall b m, dhcp_decode b = Ok m -> nth 2 b 0 <= 16 /\ d_chaddr m = firstn (N.to_nat (nth 2 b 0)) (firstn 16 (skipn 28 b)).
Proof. exact decode_hlen_bound. Qed.
Print Assumptions C10_hlen.

(* a packet that is not an IPv4/UDP BOOTREQUEST of a handled type (DISCOVER, REQUEST) is answered with nothing
   and leaves the lease table exactly as it was *)
Theorem C10_unhandled_is_noop : forall c t r, handled c (r_pkt r) = false -> r_has_snap r = false ->
  forall t', accept_round c t r = RAcc t' -> t' = t /\ r_outs r = [].
Proof. exact junk_is_noop. Qed.
Print Assumptions C10_unhandled_is_noop.

Example C10_nonvacuous :
  decode_chain [69; 0; 0; 20; 0; 0; 0; 0; 64; 6; 0; 0; 0; 0; 0; 0; 255; 255; 255; 255] = None /\ decode_ipv4 [69] = Err.
Proof. vm_compute. split; reflexivity. Qed.
