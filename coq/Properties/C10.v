(* C10 — Malformed or irrelevant traffic never crashes or perturbs the daemons (server side and decoders).  Statements only. *)
From PSA Require Import model.Bytes model.Layer model.Dhcp model.Server spec.Monitors proofs.LayerProofs proofs.DhcpProofs proofs.ServerProofs.
From PSA Require Import spec.WireHyps spec.WireExample proofs.WireProofs proofs.WireInv proofs.WireLease proofs.WireSnap proofs.WireHypsProofs proofs.WireExampleProofs.
Open Scope N_scope.

(* no byte string of any length makes a decoder of the receive path index outside its input *)
Theorem C10_receive_path_no_panic : forall b, decode_ipv4 b <> Panic /\ decode_udp b <> Panic /\ dhcp_decode b <> Panic.
Proof. exact receive_path_no_panic. Qed.
Print Assumptions C10_receive_path_no_panic.

Theorem C10_arp_no_panic : forall b, decode_arp b <> Panic.
Proof. exact decode_arp_no_panic. Qed.
Print Assumptions C10_arp_no_panic.

(* any hardware-address length: lengths above 16 are rejected, the others never read beyond the 16-byte field *)
Theorem C10_hlen : forall b m, dhcp_decode b = Ok m -> nth 2 b 0 <= 16 /\ d_chaddr m = firstn (N.to_nat (nth 2 b 0)) (firstn 16 (skipn 28 b)).
Proof. exact decode_hlen_bound. Qed.
Print Assumptions C10_hlen.

(* a packet that is not an IPv4/UDP BOOTREQUEST of a handled type (DISCOVER, REQUEST) is answered with nothing
   and leaves the lease table exactly as it was *)
Theorem C10_unhandled_is_noop : forall c t r, handled c (r_pkt r) = false -> r_has_snap r = false ->
  forall t', accept_round c t r = RAcc t' -> t' = t /\ r_outs r = [].
Proof. exact junk_is_noop. Qed.
Print Assumptions C10_unhandled_is_noop.

(* ON THE WIRE (server), over whole histories: on every accepted history mon_C10 holds - a received byte string that does not parse as
   an IPv4/UDP datagram carrying a BOOTREQUEST of type DISCOVER or REQUEST causes no reply, and the table listing after it shows
   the bindings listed before it, minus those that have run out meanwhile, and nothing else: all later behaviour is unchanged
   (the rounds that follow are judged from that listing by the other theorems).
   The acceptor (model/Server.v) is what every run compares the implementation with, round by round (tag 101); the premises
   are boolean conditions (spec/WireHyps.v) evaluated on every generated history (tag 220, Cxx_premises below); the rounds are
   sequential with a table listing after each (interleavings: the theorems over operation histories above). *)
Theorem C10_on_the_wire : forall c h, cfg_srv_ok c -> durations_ok c -> Forall wf_round h -> snap_times 0%Z h -> accepted c h -> mon_C10 c h = true.
Proof. exact accepted_history_c10. Qed.
Print Assumptions C10_on_the_wire.

Theorem C10_premises : forall c h, wire_hyps c h = true -> wire_premises c h.
Proof. exact wire_hyps_premises. Qed.
Print Assumptions C10_premises.

(* the premises hold of, and the acceptor accepts, a recorded history of the real server (OFFER, ACK, NAK on an ARP conflict, silent rounds) *)
Theorem C10_wire_nonvacuous : exists c h, wire_example = Some (c, h) /\ wire_premises c h /\ accepted c h /\
  length h = 6%nat /\ length (events c h) = 2%nat /\ length (flat_map r_outs h) = 3%nat.
Proof. exact wire_example_full. Qed.
Print Assumptions C10_wire_nonvacuous.

Example C10_nonvacuous :
  decode_chain [69; 0; 0; 20; 0; 0; 0; 0; 64; 6; 0; 0; 0; 0; 0; 0; 255; 255; 255; 255] = None /\ decode_ipv4 [69] = Err.
Proof. vm_compute. split; reflexivity. Qed.
