(* C12 — DHCP message encoding and decoding are mutually inverse and bounds-safe.
   Statements only; every proof is `exact <lemma>`. *)
From PSA Require Import model.Bytes model.Dhcp spec.SpecCodec proofs.DhcpProofs.
Open Scope N_scope.

(* Decoding the encoding of any message (hardware address up to 16 bytes, at least one option, codes
   1-254, payloads up to 255 bytes, 64/128-byte sname/file) returns the same message. *)
Theorem C12_decode_assemble : forall m, wf_msg m = true -> dhcp_decode (dhcp_assemble m) = Ok m.
Proof. exact dhcp_decode_assemble. Qed.
Print Assumptions C12_decode_assemble.

(* Decoding arbitrary bytes succeeds exactly when an independent RFC 2131/2132 reading exists — at least
   240 bytes, hardware-address length at most 16, option area in the grammar (pad | code len data)* end any* —
   and then returns exactly the fields at the RFC offsets and the options of that grammar. *)
Theorem C12_decode_is_rfc_parser : forall b m, dhcp_decode b = Ok m <-> (240 <= len b /\ decoded_as b m).
Proof. exact dhcp_decode_spec. Qed.
Print Assumptions C12_decode_is_rfc_parser.

(* the option walk of the decoder is the grammar, for option areas of any length *)
Theorem C12_option_walk_is_grammar : forall b os, parse_opts (length b) b = Some os <-> opt_area b os.
Proof. exact parse_opts_iff. Qed.
Print Assumptions C12_option_walk_is_grammar.

Theorem C12_grammar_unambiguous : forall b os1 os2, opt_area b os1 -> opt_area b os2 -> os1 = os2.
Proof. exact opt_area_functional. Qed.
Print Assumptions C12_grammar_unambiguous.

(* no byte string of any length makes the decoder index outside its input *)
Theorem C12_decode_no_panic : forall b, dhcp_decode b <> Panic.
Proof. exact dhcp_decode_no_panic. Qed.
Print Assumptions C12_decode_no_panic.

(* Typed option values: each field is the conversion of the last option carrying its code (nothing else
   influences it), and the conversions yield a value only for payloads of exactly the required length. *)
Theorem C12_typed_view : forall os, decode_options os = typed_view os.
Proof. exact decode_options_typed. Qed.
Print Assumptions C12_typed_view.

Theorem C12_typed_exact :
  (forall x, to_u8 x <> 0 -> exists a, x = [a] /\ to_u8 x = a) /\
  (forall x, to_u16 x <> 0 -> exists a b, x = [a; b] /\ to_u16 x = be16 a b) /\
  (forall x, to_u32 x <> 0 -> exists a b c d, x = [a; b; c; d] /\ to_u32 x = be32 a b c d) /\
  (forall x a, to_v4 x = Some a -> exists b0 b1 b2 b3, x = [b0; b1; b2; b3] /\ a = be32 b0 b1 b2 b3) /\
  (forall x, to_v4a x <> [] -> length x = (4 * length (to_v4a x))%nat /\ (4 <= length x)%nat) /\
  (forall x m, to_mask x = Some m -> length x = 4%nat /\ m = x).
Proof. exact (conj to_u8_exact (conj to_u16_exact (conj to_u32_exact (conj to_v4_exact (conj to_v4a_exact to_mask_exact))))). Qed.
Print Assumptions C12_typed_exact.

Example C12_nonvacuous :
  let m := {| d_op := 1; d_htype := 1; d_hops := 0; d_xid := 305419896; d_secs := 3; d_flags := 32768;
              d_ciaddr := 0; d_yiaddr := 167772170; d_siaddr := 0; d_giaddr := 0; d_chaddr := [2; 0; 0; 0; 0; 9];
              d_sname := zeros 64; d_file := zeros 128; d_cookie := 1669485411;
              d_options := [(53, [1]); (50, [10; 0; 0; 10]); (61, [1; 2; 3; 4; 5])] |} in
  wf_msg m = true /\ dhcp_decode (dhcp_assemble m) = Ok m /\
  o_reqip (decode_options (d_options m)) = Some 167772170 /\ o_msgtype (decode_options (d_options m)) = 1.
Proof. vm_compute. repeat split. Qed.
