(* C11 — The lease database is a table of exclusive, expiring bindings.
   Statements only; every proof is `exact <lemma>`. *)
From PSA Require Import model.Bytes model.Clients model.Ipdb spec.SpecTable spec.SpecIpdb
  proofs.ClientsProofs proofs.IpdbProofs proofs.TableProofs.
Open Scope N_scope.

(* Refinement: for every history of operations (updates, lookups, permanent inserts, searches with any
   candidate order, probe outcomes, probe durations and cancellation points) and every non-decreasing clock,
   the two-key store with lazy deletion and pointer comparison answers exactly as the reference table. *)
Theorem C11_refines_table : forall h x now, clock_ok h -> Rep now (st x) ->
  c_run x now h = t_run x (heap (st x)) now h.
Proof. exact c_run_refines. Qed.
Print Assumptions C11_refines_table.

Theorem C11_initial_state_ok : forall now, Rep now empty_store /\ unique_live now [].
Proof. exact (fun now => conj (Rep_empty now) (unique_live_nil now)). Qed.
Print Assumptions C11_initial_state_ok.

(* At most one live binding per address and per client, in every reachable table state. *)
Theorem C11_exclusive : forall h x t now, clock_ok h -> unique_live now t ->
  unique_live (snd (t_final x t now h)) (fst (t_final x t now h)) /\ (now <= snd (t_final x t now h))%Z.
Proof. exact t_run_unique. Qed.
Print Assumptions C11_exclusive.

(* An update succeeds exactly when it extends the caller's own binding or creates one where neither the
   address nor the client is bound (a binding created with a negative lifetime is born expired and the
   call reports failure); otherwise nothing changes. *)
Theorem C11_update_ok_iff : forall x now ip d ttl t ok t',
  unique_live now t -> t_update_client x now ip d ttl t = (ok, t') ->
  match to_uip x ip with
  | None => ok = false /\ t' = t
  | Some n =>
    (exists p e, live_at now t p e /\ e_ip e = n /\ e_duid e = d /\ ok = true /\ t' = set_until t p (now + ttl)%Z) \/
    (find_live now (KIp n) t 0 = None /\ find_live now (KDuid d) t 0 = None /\
     t' = t ++ [new_entry n d (now + ttl)%Z false] /\ (ok = true <-> (0 <= ttl)%Z)) \/
    ((find_live now (KIp n) t 0 <> None \/ find_live now (KDuid d) t 0 <> None) /\
     (~ exists p e, live_at now t p e /\ e_ip e = n /\ e_duid e = d) /\ ok = false /\ t' = t)
  end.
Proof. exact t_update_spec. Qed.
Print Assumptions C11_update_ok_iff.

(* Expired non-permanent bindings are invisible to every lookup ... *)
Theorem C11_expired_invisible : forall now t p e k,
  nth_error t p = Some e -> e_perm e = false -> (e_until e < now)%Z -> find_live now k t 0 <> Some p.
Proof. exact expired_invisible. Qed.
Print Assumptions C11_expired_invisible.

(* ... and permanent ones never disappear, whatever happens afterwards and however long it takes. *)
Theorem C11_permanent_forever : forall h x t now p e,
  clock_ok h -> unique_live now t -> nth_error t p = Some e -> e_perm e = true ->
  t_lookup_by_duid (snd (t_final x t now h)) (e_duid e) (fst (t_final x t now h)) = Some (e_ip e) /\
  bound_duid (snd (t_final x t now h)) (e_ip e) (fst (t_final x t now h)) = Some (e_duid e).
Proof. exact permanent_forever. Qed.
Print Assumptions C11_permanent_forever.

(* Address search: own address first ... *)
Theorem C11_find_own : forall x perm c pr now sg d t a,
  bound_ip now d t = Some a -> t_find_ip x perm c pr now sg d t = (Some a, now).
Proof. exact find_ip_own. Qed.
Print Assumptions C11_find_own.

(* ... otherwise only an unbound, valid, conflict-free address of the search range ... *)
Theorem C11_find_sound : forall x perm c pr now sg d t a now',
  wf_ranges x -> (forall a, (0 <= snd (pr a))%Z) -> Forall (fun v => v <= dyn_to x - dyn_from x) perm ->
  bound_ip now d t = None -> t_find_ip x perm c pr now sg d t = (Some a, now') ->
  dynamic_disabled x = false /\ dyn_from x <= a <= dyn_to x /\ exists tl, (now <= tl <= now')%Z /\ eligible pr tl t a.
Proof. exact find_ip_sound. Qed.
Print Assumptions C11_find_sound.

(* ... the suggested one first if eligible ... *)
Theorem C11_find_suggested : forall x perm c pr now sg d t n,
  wf_ranges x -> to_uip x sg = Some n -> dyn_from x <= n <= dyn_to x -> dynamic_disabled x = false ->
  bound_ip now d t = None -> c 0%nat = false -> eligible pr now t n ->
  t_find_ip x perm c pr now sg d t = (Some n, (now + snd (pr n))%Z).
Proof. exact find_ip_suggested. Qed.
Print Assumptions C11_find_suggested.

(* ... and failure only when searching is disabled, cancelled, or no eligible address exists. *)
Theorem C11_find_complete : forall x perm c pr now sg d t now',
  wf_ranges x -> (forall a, (0 <= snd (pr a))%Z) -> (forall j, c j = false) ->
  (forall a, dyn_from x <= a <= dyn_to x -> In (a - dyn_from x) perm) ->
  bound_ip now d t = None -> dynamic_disabled x = false ->
  t_find_ip x perm c pr now sg d t = (None, now') ->
  forall a, dyn_from x <= a <= dyn_to x -> uip_valid a = true -> fst (pr a) = true -> find_live now (KIp a) t 0 <> None.
Proof. exact find_ip_complete. Qed.
Print Assumptions C11_find_complete.

(* non-vacuity: a concrete history with an expiry, a refused update and a search *)
Example C11_nonvacuous :
  let x := {| net_from := 10; net_to := 20; dyn_from := 12; dyn_to := 13; st := empty_store |} in
  let h := [(0%Z, OpUpdate (Some 12) [1] 5%Z); (1%Z, OpUpdate (Some 12) [2] 5%Z); (0%Z, OpLookup [1]);
            (10%Z, OpUpdate (Some 12) [2] 5%Z); (0%Z, OpLookup [1]);
            (0%Z, OpFind [1; 0] (fun _ => false) (fun _ => (true, 3%Z)) None [3])] in
  c_run x 0%Z h = [RBool true; RBool false; RIp (Some 12); RBool true; RIp None; RIp (Some 13)] /\
  t_run x [] 0%Z h = c_run x 0%Z h.
Proof. vm_compute. split; reflexivity. Qed.
