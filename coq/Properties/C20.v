(* C20 — resolv.conf is replaced atomically.   PARTIAL: the logic of update() is proved over a model file system; that
   the kernel's rename(2) is atomic, that O_EXCL creation never returns an existing name, that a failed call has no effect
   and that steps of different processes are atomic with respect to each other is ASSUMED (POSIX; trusted base).
   Statements only; every proof is `exact <lemma>`.
   Model: model/Fs.v (directory, the writer program of lib/resolvconf/resolvconf.go update() as a small-step machine, any
   number of writers, arbitrary schedule, a fault or a kill possible before every step, a killed or failing write leaves
   any prefix).  Run-time checks: spec/SpecFs.v.  The program order is tied to the source by tools/gofacts. *)
From PSA Require Import gen.GoFacts model.Bytes model.Fs spec.SpecFs proofs.FsProofs.
Open Scope N_scope.

(* the source has the shape the model has: TempFile, Write, Close, Chmod, Rename in this order; exactly one deferred
   closure `if err != nil { os.Remove(name) }` on the named result; Chmod/Rename/Remove act on tmpfh.Name(); the target is in
   the directory of the temp file *)
Theorem C20_program_matches_source :
  gf_resolv_update_order = true /\ gf_resolv_cleanup_on_error = true /\ gf_resolv_ops_on_tmp_name = true /\ gf_resolv_same_dir = true.
Proof. exact cf_fs_program_order. Qed.
Print Assumptions C20_program_matches_source.

(* no random string turns the temp pattern into the target name *)
Theorem C20_tmp_is_never_target : forall r, tmp_name r <> resolv_name.
Proof. exact tmp_name_ne. Qed.
Print Assumptions C20_tmp_is_never_target.

(* (a)+(b) For every initial directory, every list of writers (buffers), every schedule with every choice of faults,
   kills and temp names: resolv.conf is what it was initially (absent if it was absent), or it is the COMPLETE buffer of
   a writer that has returned nil, with mode 0644 (the literal of the source).  Never a partial or mixed file. *)
Theorem C20_resolv_atomic : forall d0 bufs s,
  let st := run (init d0 bufs) s in
  lookup resolv_name (st_dir st) = lookup resolv_name d0 \/
  exists i b w, nth_error bufs i = Some b /\ nth_error (st_ws st) i = Some w /\ w_st w = SOk /\ w_dead w = false /\
                lookup resolv_name (st_dir st) = Some {| f_data := b; f_mode := gf_resolv_mode |}.
Proof. exact fs_resolv_atomic. Qed.
Print Assumptions C20_resolv_atomic.

(* (c) a step changes resolv.conf only if it is the rename of a live writer, neither killed nor failing, and then the
   new file is that writer's complete buffer *)
Theorem C20_only_rename_changes : forall d0 bufs s i c,
  let st := run (init d0 bufs) s in let st' := step st (i, c) in
  lookup resolv_name (st_dir st') <> lookup resolv_name (st_dir st) ->
  exists w w' t, nth_error (st_ws st) i = Some w /\ w_st w = SRename t /\ w_dead w = false /\ c_kill c = false /\ c_fault c = false /\
                 nth_error (st_ws st') i = Some w' /\ w_st w' = SOk /\ w_dead w' = false /\
                 lookup resolv_name (st_dir st') = Some (final_file (w_buf w)).
Proof. exact fs_only_rename_changes. Qed.
Print Assumptions C20_only_rename_changes.

(* (c) a writer that does not end as "returned nil" - it returned an error, was killed, or never finished - did not
   change resolv.conf with any of its steps *)
Theorem C20_failed_writer_no_change : forall d0 bufs s1 i c s2,
  let st := run (init d0 bufs) s1 in let st' := step st (i, c) in let fin := run st' s2 in
  (forall w, nth_error (st_ws fin) i = Some w -> w_st w <> SOk) ->
  lookup resolv_name (st_dir st') = lookup resolv_name (st_dir st).
Proof. exact fs_failed_writer_no_change. Qed.
Print Assumptions C20_failed_writer_no_change.

(* (c) the step with which a writer returns an error: TempFile failed and nothing was created; or the deferred removal
   ran: the temp name is absent afterwards and nothing else changed - unless os.Remove itself failed (its result is
   ignored by the source), then the file stays *)
Theorem C20_error_return : forall d0 bufs s i c w w' l,
  let st := run (init d0 bufs) s in let st' := step st (i, c) in
  nth_error (st_ws st) i = Some w -> nth_error (st_ws st') i = Some w' -> w_dead w = false -> (forall l0, w_st w <> SErr l0) ->
  w_st w' = SErr l ->
  lookup resolv_name (st_dir st') = lookup resolv_name (st_dir st) /\
  ((w_st w = SCreate /\ st_dir st' = st_dir st /\ l = None) \/
   exists t, w_st w = SCleanup t /\
     ((l = None /\ lookup t (st_dir st') = None /\ forall n, n <> t -> lookup n (st_dir st') = lookup n (st_dir st)) \/
      (l = Some t /\ c_fault c = true /\ st_dir st' = st_dir st))).
Proof. exact fs_error_return. Qed.
Print Assumptions C20_error_return.

(* (d) two writers never hold the same temp name (dead writers and left-over files included) *)
Theorem C20_tmp_names_distinct : forall d0 bufs s i j wi wj t,
  let st := run (init d0 bufs) s in
  nth_error (st_ws st) i = Some wi -> nth_error (st_ws st) j = Some wj ->
  holds (w_st wi) = Some t -> holds (w_st wj) = Some t -> i = j.
Proof. exact fs_tmp_names_distinct. Qed.
Print Assumptions C20_tmp_names_distinct.

(* (d) a held temp file exists, is not the target, has the pattern's shape, holds a prefix of its writer's buffer, and has
   the creation mode 0600 unless it is complete with the final mode *)
Theorem C20_tmp_files : forall d0 bufs s i w t,
  let st := run (init d0 bufs) s in
  nth_error (st_ws st) i = Some w -> holds (w_st w) = Some t ->
  t <> resolv_name /\ (exists r, t = tmp_name r) /\
  exists f, lookup t (st_dir st) = Some f /\ (exists k, f_data f = firstn k (w_buf w)) /\
            (f_mode f = tmp_mode \/ f = final_file (w_buf w)).
Proof. exact fs_tmp_files. Qed.
Print Assumptions C20_tmp_files.

(* (d) nothing else in the directory is touched *)
Theorem C20_dir_accounted : forall d0 bufs s n,
  let st := run (init d0 bufs) s in
  n <> resolv_name ->
  (forall f, lookup n (st_dir st) = Some f ->
     lookup n d0 = Some f \/ exists i w, nth_error (st_ws st) i = Some w /\ holds (w_st w) = Some n) /\
  (forall f, lookup n d0 = Some f -> lookup n (st_dir st) = Some f).
Proof. exact fs_dir_accounted. Qed.
Print Assumptions C20_dir_accounted.

(* (c)+(d) when every writer has returned nil, or an error with its temp file removed, no temp file is left *)
Theorem C20_quiescent_no_temp_files : forall d0 bufs s,
  let st := run (init d0 bufs) s in
  (forall i w, nth_error (st_ws st) i = Some w -> holds (w_st w) = None) ->
  forall n, n <> resolv_name -> lookup n (st_dir st) = lookup n d0.
Proof. exact fs_quiescent. Qed.
Print Assumptions C20_quiescent_no_temp_files.

(* (e) the rename of a live writer installs its buffer with mode 0644 *)
Theorem C20_rename_installs : forall d0 bufs s i w t c,
  let st := run (init d0 bufs) s in let st' := step st (i, c) in
  nth_error (st_ws st) i = Some w -> w_st w = SRename t -> w_dead w = false -> c_kill c = false -> c_fault c = false ->
  lookup resolv_name (st_dir st') = Some (final_file (w_buf w)) /\
  exists w', nth_error (st_ws st') i = Some w' /\ w_st w' = SOk /\ w_dead w' = false.
Proof. exact fs_rename_installs. Qed.
Print Assumptions C20_rename_installs.

(* (e) a writer that takes its five steps (with a fresh temp name) without fault and without being killed - whatever the
   other writers do in between, their faults and deaths included - leaves resolv.conf = its buffer, mode 0644, and
   returns nil *)
Theorem C20_complete_run : forall d0 bufs s0 i w c1 s1 c2 s2 c3 s3 c4 s4 c5,
  let st0 := run (init d0 bufs) s0 in
  nth_error (st_ws st0) i = Some w -> w_st w = SCreate -> w_dead w = false ->
  lookup (tmp_name (c_rand c1)) (st_dir st0) = None ->
  good c1 -> good c2 -> good c3 -> good c4 -> good c5 ->
  Forall (fun ic => fst ic <> i) s1 -> Forall (fun ic => fst ic <> i) s2 -> Forall (fun ic => fst ic <> i) s3 -> Forall (fun ic => fst ic <> i) s4 ->
  let fin := run st0 ((i, c1) :: s1 ++ (i, c2) :: s2 ++ (i, c3) :: s3 ++ (i, c4) :: s4 ++ [(i, c5)]) in
  lookup resolv_name (st_dir fin) = Some {| f_data := w_buf w; f_mode := gf_resolv_mode |} /\
  exists w', nth_error (st_ws fin) i = Some w' /\ w_st w' = SOk /\ w_dead w' = false.
Proof. exact fs_complete_run. Qed.
Print Assumptions C20_complete_run.

(* the checks run on samples and listings of the real directory accept every reachable state of the model: a rejected
   observation is a state the model cannot reach *)
Theorem C20_sample_check_meaning : forall before bufs o,
  sample_ok before bufs o = true <-> (o = before \/ exists b, In b bufs /\ o = Some {| f_data := b; f_mode := gf_resolv_mode |}).
Proof. exact sample_ok_meaning. Qed.
Print Assumptions C20_sample_check_meaning.

Theorem C20_checks_accept_reachable : forall d0 bufs s, dir_ok d0 bufs (st_dir (run (init d0 bufs) s)) = true.
Proof. exact fs_monitor_sound. Qed.
Print Assumptions C20_checks_accept_reachable.

Theorem C20_checks_accept_quiescent : forall d0 bufs s,
  let st := run (init d0 bufs) s in
  (forall i w, nth_error (st_ws st) i = Some w -> holds (w_st w) = None) -> quiet_ok d0 bufs (st_dir st) = true.
Proof. exact fs_monitor_quiet. Qed.
Print Assumptions C20_checks_accept_quiescent.

Theorem C20_reader_content : forall d0 bufs s,
  content_ok (option_map f_data (lookup resolv_name d0)) bufs (option_map f_data (lookup resolv_name (st_dir (run (init d0 bufs) s)))) = true.
Proof. exact fs_content_ok. Qed.
Print Assumptions C20_reader_content.

Example C20_nonvacuous :
  let d0 := [(resolv_name, {| f_data := [9]; f_mode := 384 |}); ([120], {| f_data := [7]; f_mode := 420 |}); (tmp_name [49], {| f_data := []; f_mode := 384 |})] in
  let ok r := {| c_kill := false; c_fault := false; c_rand := r; c_len := 0 |} in
  let fault k := {| c_kill := false; c_fault := true; c_rand := []; c_len := k |} in
  let kill k := {| c_kill := true; c_fault := false; c_rand := []; c_len := k |} in
  let bufs := [[1; 2; 3]; [4; 5]; [6; 7; 8]] in
  (* writer 0 collides with the stale name "1", retries with "2"; writer 1 is killed after one byte; writer 2 fails in chmod *)
  let s := [(0%nat, ok [49]); (0%nat, ok [50]); (1%nat, ok [51]); (0%nat, ok []); (1%nat, kill 1%nat); (2%nat, ok [52]); (2%nat, ok []);
            (2%nat, ok []); (0%nat, ok []); (2%nat, fault 0%nat)] in
  let mid := run (init d0 bufs) s in
  let fin := run mid [(2%nat, ok []); (0%nat, ok []); (0%nat, ok [])] in
  lookup resolv_name (st_dir mid) = Some {| f_data := [9]; f_mode := 384 |} /\
  lookup (tmp_name [50]) (st_dir mid) = Some {| f_data := [1; 2; 3]; f_mode := 384 |} /\
  lookup (tmp_name [52]) (st_dir mid) = Some {| f_data := [6; 7; 8]; f_mode := 384 |} /\
  lookup resolv_name (st_dir fin) = Some {| f_data := [1; 2; 3]; f_mode := 420 |} /\
  lookup (tmp_name [50]) (st_dir fin) = None /\ lookup (tmp_name [52]) (st_dir fin) = None /\
  lookup (tmp_name [51]) (st_dir fin) = Some {| f_data := [4]; f_mode := 384 |} /\
  lookup (tmp_name [49]) (st_dir fin) = Some {| f_data := []; f_mode := 384 |} /\
  map outcome (st_ws fin) = [0; 2; 1] /\
  dir_ok d0 bufs (st_dir mid) = true /\ dir_ok d0 bufs (st_dir fin) = true /\ quiet_ok d0 bufs (st_dir fin) = false /\
  (* a torn file is rejected by the checks *)
  sample_ok (Some {| f_data := [9]; f_mode := 384 |}) bufs (Some {| f_data := [1; 2]; f_mode := 420 |}) = false /\
  sample_ok (Some {| f_data := [9]; f_mode := 384 |}) bufs (Some {| f_data := [1; 2; 3]; f_mode := 384 |}) = false /\
  dir_ok d0 bufs [(resolv_name, {| f_data := [1; 2; 3]; f_mode := 420 |}); ([120], {| f_data := [7]; f_mode := 420 |});
                  (tmp_name [49], {| f_data := []; f_mode := 384 |}); (tmp_name [53], {| f_data := [4; 6]; f_mode := 384 |})] = false.
Proof. vm_compute. repeat split. Qed.
