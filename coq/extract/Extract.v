From Coq Require Import ExtrOcamlBasic.
From PSA Require Import model.Dispatch.
Extraction "model.ml" dispatch.
