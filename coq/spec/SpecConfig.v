(* Declarative reading of properties C18 and C07 over the abstract configuration of model/Config.v.
   Nothing here refers to how server.New or dhcpOptions proceed: validity is a conjunction of named
   conditions on the configuration, the options a client must be sent are read off the configuration
   ("the per-client value if that entry specifies one, else the global one, else omitted"), and the
   bindings/ranges of a started server are listed directly.

   "Inside the network" means inside the range of addresses the lease database manages for that
   network, Ipdb.from_to (network and broadcast address excluded; C11). *)
From PSA Require Import gen.GoFacts model.Bytes model.Dhcp model.Clients model.Ipdb spec.SpecTable model.Server model.Config.
Open Scope N_scope.

(* ---- values of well-formed fields ---- *)
Definition addr_val (a : addr_c) : option N := match a with V4 n => Some n | _ => None end.
Definition list_vals (l : list addr_c) : list N := flat_map (fun a => match a with V4 n => [n] | _ => [] end) l.

(* an address field is acceptable when it is unset or an IPv4 address *)
Definition addr_ok (a : addr_c) : bool := match a with ABad => false | _ => true end.
Definition is_v4 (a : addr_c) : bool := match a with V4 _ => true | _ => false end.
(* a list field: the single empty string (unset) or IPv4 addresses only *)
Definition list_ok (l : list addr_c) : bool := match l with [AUnset] => true | _ => forallb is_v4 l end.

(* Limits, as the property text and the wire format state them (NOT taken from the source: the model uses the
   constants of the source, and proofs/ConfigProofs.v limits_agree shows that they are these) *)
Definition spec_min_lease_ns : Z := 60000000000.        (* "or one under a minute" *)
Definition spec_max_opt_len : N := 255.                 (* the payload length of an option is one byte *)
Definition spec_max_addrs : N := 63.                    (* 4-byte addresses in at most 255 bytes *)
Definition spec_max_lease_secs : Z := 4294967295.       (* the lease time option is 32 bits of seconds *)

(* what one DHCP option can carry *)
Definition fits_addrs (l : list addr_c) : bool := len (list_vals l) <=? spec_max_addrs.
Definition fits_bytes (b : bytes) : bool := len b <=? spec_max_opt_len.

Definition net_range (c : config) : option (N * N) :=
  match g_network c with Net4 ip mask => Some (from_to ip mask) | _ => None end.
Definition in_range (ft : N * N) (n : N) : bool := (fst ft <=? n) && (n <=? snd ft).
Definition in_network (c : config) (n : N) : bool :=
  match net_range c with Some ft => in_range ft n | None => false end.

(* hardware addresses of the per-client entries; reservations (hardware address, address) *)
Definition client_macs (l : list client_c) : list bytes :=
  flat_map (fun k => match k_key k with Mac m => [m] | BadMac => [] end) l.
Definition static_of (k : client_c) : list (bytes * N) :=
  match k_key k, k_ip k with Mac m, V4 n => [(m, n)] | _, _ => [] end.
Definition statics (l : list client_c) : list (bytes * N) := flat_map static_of l.

Definition range_ok (c : config) : bool :=
  match g_range c with
  | RUnset => true
  | Range (Some a) (Some b) => in_network c a && in_network c b && (a <=? b)
  | _ => false
  end.

(* ---- C18: the validity conditions, one field each ---- *)
Record valid_config (c : config) (own : option N) (own_mac : bytes) : Prop := {
  (* the network parses as an IPv4 prefix *)
  v_network : exists ip mask, g_network c = Net4 ip mask;
  (* the lease duration parses, is at least a minute and fits the 32-bit seconds field *)
  v_lease_parsed : exists ns, g_lease c = Dur ns;
  v_lease_min : forall ns, g_lease c = Dur ns -> (spec_min_lease_ns <= ns)%Z;
  v_lease_fits : forall ns, g_lease c = Dur ns -> (ns / second_ns <= spec_max_lease_secs)%Z;
  (* global router / DNS / NTP are IPv4 addresses (or unset) and fit one option; so does the domain *)
  v_global_addrs : addr_ok (g_router c) = true /\ list_ok (g_dns c) = true /\ list_ok (g_ntp c) = true;
  v_global_fits : fits_addrs (g_dns c) = true /\ fits_addrs (g_ntp c) = true /\ fits_bytes (g_domain c) = true;
  (* the dynamic range is unset, or "a-b" with both ends IPv4 addresses inside the network and a <= b *)
  v_range : range_ok c = true;
  (* the server's own address exists and lies inside the network *)
  v_own : exists self, own = Some self /\ in_network c self = true;
  (* every per-client key is a hardware address *)
  v_client_keys : Forall (fun k => exists m, k_key k = Mac m) (g_clients c);
  (* every per-client address / router / DNS / NTP value is an IPv4 address (or unset) *)
  v_client_addrs : Forall (fun k => addr_ok (k_ip k) = true /\ addr_ok (k_router k) = true /\
                                    list_ok (k_dns k) = true /\ list_ok (k_ntp k) = true) (g_clients c);
  (* every per-client list and host name fits one option *)
  v_client_fits : Forall (fun k => fits_addrs (k_dns k) = true /\ fits_addrs (k_ntp k) = true /\
                                   fits_bytes (k_hostname k) = true) (g_clients c);
  (* reserved addresses lie inside the network *)
  v_statics_in_net : forall m n, In (m, n) (statics (g_clients c)) -> in_network c n = true;
  (* no two entries for the same hardware address (whatever their spelling in the file) *)
  v_distinct_macs : NoDup (client_macs (g_clients c));
  (* no two reservations for the same address, and none for the server's own address *)
  v_distinct_ips : forall self, own = Some self -> NoDup (map snd (statics (g_clients c)) ++ [self]);
  (* no reservation for the server's own hardware address (its binding belongs to the server) *)
  v_own_mac_free : ~ In own_mac (map fst (statics (g_clients c))) }.

(* ---- the same conditions as one decidable test (used as a monitor on the implementation) ---- *)
Fixpoint mem_bytes (x : bytes) (l : list bytes) : bool :=
  match l with [] => false | y :: r => bytes_eqb x y || mem_bytes x r end.
Fixpoint nodup_bytes (l : list bytes) : bool :=
  match l with [] => true | x :: r => negb (mem_bytes x r) && nodup_bytes r end.
Fixpoint mem_n (x : N) (l : list N) : bool :=
  match l with [] => false | y :: r => (x =? y) || mem_n x r end.
Fixpoint nodup_n (l : list N) : bool :=
  match l with [] => true | x :: r => negb (mem_n x r) && nodup_n r end.

Definition valid_config_b (c : config) (own : option N) (own_mac : bytes) : bool :=
  match g_network c, g_lease c, own with
  | Net4 _ _, Dur ns, Some self =>
    (spec_min_lease_ns <=? ns)%Z && (ns / second_ns <=? spec_max_lease_secs)%Z &&
    addr_ok (g_router c) && list_ok (g_dns c) && list_ok (g_ntp c) &&
    fits_addrs (g_dns c) && fits_addrs (g_ntp c) && fits_bytes (g_domain c) &&
    range_ok c && in_network c self &&
    forallb (fun k => match k_key k with Mac _ => true | BadMac => false end) (g_clients c) &&
    forallb (fun k => addr_ok (k_ip k) && addr_ok (k_router k) && list_ok (k_dns k) && list_ok (k_ntp k)) (g_clients c) &&
    forallb (fun k => fits_addrs (k_dns k) && fits_addrs (k_ntp k) && fits_bytes (k_hostname k)) (g_clients c) &&
    forallb (fun p => in_network c (snd p)) (statics (g_clients c)) &&
    nodup_bytes (client_macs (g_clients c)) &&
    nodup_n (map snd (statics (g_clients c)) ++ [self]) &&
    negb (mem_bytes own_mac (map fst (statics (g_clients c))))
  | _, _, _ => false
  end.

(* ---- what a started server consists of ---- *)
(* netFrom, netTo, dynFrom, dynTo *)
Definition expected_ranges (c : config) : option (N * N * N * N) :=
  match net_range c with
  | None => None
  | Some (f, t) =>
    if g_static_only c then Some (f, t, 0, 0) else
    match g_range c with
    | Range (Some a) (Some b) => Some (f, t, a, b)
    | _ => Some (f, t, f, t)
    end
  end.

Definition perm_entry (p : bytes * N) : entry :=
  {| e_ip := snd p; e_duid := sduid (fst p); e_until := 0%Z; e_perm := true |}.

(* the permanent bindings: one per reservation, one for the server itself, nothing else *)
Definition expected_bindings (c : config) (self : N) (own_mac : bytes) : table :=
  map perm_entry (statics (g_clients c) ++ [(own_mac, self)]).

(* ---- C07: the options a client with hardware address mac must be sent ---- *)
Definition find_client (mac : bytes) (l : list client_c) : option client_c :=
  find (fun k => match k_key k with Mac m => bytes_eqb m mac | BadMac => false end) l.

Definition or_else {A} (a b : option A) : option A := match a with Some _ => a | None => b end.
Definition nonempty_or {A} (a b : list A) : list A := match a with [] => b | _ => a end.

Definition opt_addr (code : N) (a : option N) : list dhcp_opt := match a with Some x => [(code, put32 x)] | None => [] end.
Definition opt_addrs (code : N) (l : list N) : list dhcp_opt := match l with [] => [] | _ => [(code, flat_map put32 l)] end.
Definition opt_bytes (code : N) (b : bytes) : list dhcp_opt := match b with [] => [] | _ => [(code, b)] end.

(* whole seconds of the configured lease (R8) *)
Definition lease_seconds (c : config) : Z := match g_lease c with Dur ns => (ns / second_ns)%Z | LeaseBad => 0%Z end.
Definition netmask (c : config) : N := match g_network c with Net4 _ m => m | _ => 0 end.

Definition expected_router (c : config) (e : option client_c) : option N :=
  match e with Some k => or_else (addr_val (k_router k)) (addr_val (g_router c)) | None => addr_val (g_router c) end.
Definition expected_dns (c : config) (e : option client_c) : list N :=
  match e with Some k => nonempty_or (list_vals (k_dns k)) (list_vals (g_dns c)) | None => list_vals (g_dns c) end.
Definition expected_ntp (c : config) (e : option client_c) : list N :=
  match e with Some k => nonempty_or (list_vals (k_ntp k)) (list_vals (g_ntp c)) | None => list_vals (g_ntp c) end.
(* the configuration language has no per-client domain; the host name exists per client only *)
Definition expected_hostname (e : option client_c) : bytes := match e with Some k => k_hostname k | None => [] end.

Definition expected_options (c : config) (mac : bytes) : list dhcp_opt :=
  let e := find_client mac (g_clients c) in
  [(gf_dhcpmsg_OptIPAddressLeaseDuration, put32 (Z.to_N (lease_seconds c)));
   (gf_dhcpmsg_OptSubnetMask, put32 (netmask c))]
  ++ opt_addr gf_dhcpmsg_OptRouter (expected_router c e)
  ++ opt_addrs gf_dhcpmsg_OptDNS (expected_dns c e)
  ++ opt_addrs gf_dhcpmsg_OptNTP (expected_ntp c e)
  ++ opt_bytes gf_dhcpmsg_OptDomainName (g_domain c)
  ++ opt_bytes gf_dhcpmsg_OptHostname (expected_hostname e).

(* every payload fits the one-byte length field *)
Definition representable (os : list dhcp_opt) : bool := forallb (fun o => len (snd o) <=? 255) os.

(* ---- monitors: the specification evaluated on what the implementation did ---- *)
(* C18, on one construction: accepted exactly the valid configurations; when accepted, ranges and
   permanent bindings (given sorted by address) are the expected ones *)
Fixpoint insert_by_ip (e : entry) (l : table) : table :=
  match l with
  | [] => [e]
  | x :: r => if e_ip e <=? e_ip x then e :: l else x :: insert_by_ip e r
  end.
Definition sort_by_ip (t : table) : table := fold_right insert_by_ip [] t.

Definition entry_eqb (a b : entry) : bool :=
  (e_ip a =? e_ip b) && bytes_eqb (e_duid a) (e_duid b) && Bool.eqb (e_perm a) (e_perm b).
Fixpoint table_eqb (a b : table) : bool :=
  match a, b with
  | [], [] => true
  | x :: a', y :: b' => entry_eqb x y && table_eqb a' b'
  | _, _ => false
  end.

Definition mon_C18 (c : config) (own : option N) (own_mac : bytes)
                   (accepted : bool) (ranges : N * N * N * N) (bindings : table) : bool :=
  Bool.eqb accepted (valid_config_b c own own_mac) &&
  (negb accepted ||
   match expected_ranges c, own with
   | Some (f, t, df, dt), Some self =>
     let '(f', t', df', dt') := ranges in
     (f =? f') && (t =? t') && (df =? df') && (dt =? dt') &&
     table_eqb bindings (sort_by_ip (expected_bindings c self own_mac))
   | _, _ => false
   end).

Fixpoint opts_eqb (a b : list dhcp_opt) : bool :=
  match a, b with
  | [], [] => true
  | (c1, d1) :: a', (c2, d2) :: b' => (c1 =? c2) && bytes_eqb d1 d2 && opts_eqb a' b'
  | _, _ => false
  end.

(* C07, on the DHCP payloads of an OFFER and an ACK the implementation assembled for mac: both decode
   (independent RFC reading, C12) to type, server identifier and then exactly the expected options,
   every expected payload fits its length byte, and the advertised lease is the whole seconds of the
   configured (= reserved) duration *)
Definition reply_opts_ok (c : config) (self : N) (mac : bytes) (typ : N) (payload : bytes) : bool :=
  match dhcp_decode payload with
  | Ok m => opts_eqb (d_options m)
              ((gf_dhcpmsg_OptMessageType, [typ]) :: (gf_dhcpmsg_OptServerIdentifier, put32 self) :: expected_options c mac)
  | _ => false
  end.

Definition advertised (os : list dhcp_opt) : option N :=
  match os with
  | (code, [a; b; c0; d]) :: _ => if code =? gf_dhcpmsg_OptIPAddressLeaseDuration then Some (be32 a b c0 d) else None
  | _ => None
  end.

Definition mon_C07 (c : config) (self : N) (mac : bytes) (observed : list dhcp_opt) (offer ack : bytes) : bool :=
  opts_eqb observed (expected_options c mac) &&
  representable (expected_options c mac) &&
  match advertised observed with Some s => (Z.of_N s =? lease_seconds c)%Z | None => false end &&
  reply_opts_ok c self mac gf_dhcpmsg_MsgTypeOffer offer &&
  reply_opts_ok c self mac gf_dhcpmsg_MsgTypeAck ack.

(* the same configuration with the client map enumerated in another order *)
Definition with_clients (c : config) (l : list client_c) : config :=
  {| g_network := g_network c; g_lease := g_lease c; g_router := g_router c; g_dns := g_dns c; g_ntp := g_ntp c;
     g_domain := g_domain c; g_range := g_range c; g_static_only := g_static_only c; g_clients := l |}.
