(* Independent statements of what valid packets are (RFC 791 / 768 / 1071).
   Nothing here refers to the models of the Go code. *)
From PSA Require Import model.Bytes.
Open Scope N_scope.

(* sum of big-endian 16-bit words, odd tail padded with a zero byte; unbounded *)
Fixpoint ones_sum (b : bytes) : N :=
  match b with
  | hi :: lo :: r => be16 hi lo + ones_sum r
  | [hi] => be16 hi 0
  | [] => 0
  end.

(* RFC 1071: the one's-complement sum of all words, checksum included, is 0xFFFF.
   For an unbounded sum S the end-around-carry fold is 0xFFFF iff S > 0 and 65535 | S. *)
Definition rfc1071_ok (b : bytes) : bool := (0 <? ones_sum b) && (ones_sum b mod 65535 =? 0).

(* RFC 768 pseudo header *)
Definition pseudo (src dst proto ulen : N) : bytes := put32 src ++ put32 dst ++ [0; proto] ++ put16 ulen.

Definition nth0 (b : bytes) (i : nat) : N := nth i b 0.

(* UDP segment u carried between src and dst: checksum verifies, or is absent (0) *)
Definition udp_ok (src dst : N) (u : bytes) : bool :=
  (be16 (nth0 u 6) (nth0 u 7) =? 0) || rfc1071_ok (pseudo src dst 17 (len u) ++ u).

(* header sanity of an IPv4 packet p with a 20-byte header *)
Definition ipv4_hdr_ok (p : bytes) : bool :=
  (nth0 p 0 =? 69) && (be16 (nth0 p 2) (nth0 p 3) =? len p) && rfc1071_ok (firstn 20 p).
