(* Independent statements of what valid packets are (RFC 791 / 768 / 1071).
   Nothing here refers to the models of the Go code. *)
From PSA Require Import model.Bytes.
Open Scope N_scope.

(* sum of big-endian 16-bit words, odd tail padded with a zero byte; unbounded *)
Fixpoint ones_sum (b : bytes) : N :=
  match b with
  | hi :: lo :: r => be16 hi lo + ones_sum r
  | [hi] => be16 hi 0
  | [] => 0
  end.

(* RFC 1071: the one's-complement sum of all words, checksum included, is 0xFFFF.
   For an unbounded sum S the end-around-carry fold is 0xFFFF iff S > 0 and 65535 | S. *)
Definition rfc1071_ok (b : bytes) : bool := (0 <? ones_sum b) && (ones_sum b mod 65535 =? 0).

(* RFC 768 pseudo header *)
Definition pseudo (src dst proto ulen : N) : bytes := put32 src ++ put32 dst ++ [0; proto] ++ put16 ulen.

Definition nth0 (b : bytes) (i : nat) : N := nth i b 0.

(* UDP segment u carried between src and dst: checksum verifies, or is absent (0) *)
Definition udp_ok (src dst : N) (u : bytes) : bool :=
  (be16 (nth0 u 6) (nth0 u 7) =? 0) || rfc1071_ok (pseudo src dst 17 (len u) ++ u).

(* header sanity of an IPv4 packet p with a 20-byte header *)
Definition ipv4_hdr_ok (p : bytes) : bool :=
  (nth0 p 0 =? 69) && (be16 (nth0 p 2) (nth0 p 3) =? len p) && rfc1071_ok (firstn 20 p).

(* ---- RFC 2131/2132: the option area is  (pad | code len data[len])*  end  any*  ---- *)
Inductive opt_area : bytes -> list (N * bytes) -> Prop :=
| oa_end r : opt_area (255 :: r) []
| oa_pad r os : opt_area r os -> opt_area (0 :: r) os
| oa_tlv c d r os : c <> 0 -> c <> 255 -> opt_area r os -> opt_area (c :: len d :: d ++ r) ((c, d) :: os).

(* fixed part of a BOOTP message, by offset *)
Record bootp_fixed := { f_op : N; f_htype : N; f_hlen : N; f_hops : N; f_xid : N; f_secs : N; f_flags : N;
                        f_ciaddr : N; f_yiaddr : N; f_siaddr : N; f_giaddr : N;
                        f_chaddr16 : bytes; f_sname : bytes; f_file : bytes; f_cookie : N }.

Definition sub (b : bytes) (off n : nat) : bytes := firstn n (skipn off b).
Definition w16 (b : bytes) (off : nat) : N := be16 (nth0 b off) (nth0 b (off + 1)).
Definition w32 (b : bytes) (off : nat) : N := be32 (nth0 b off) (nth0 b (off + 1)) (nth0 b (off + 2)) (nth0 b (off + 3)).

Definition bootp_fixed_of (b : bytes) : bootp_fixed :=
  {| f_op := nth0 b 0; f_htype := nth0 b 1; f_hlen := nth0 b 2; f_hops := nth0 b 3; f_xid := w32 b 4; f_secs := w16 b 8;
     f_flags := w16 b 10; f_ciaddr := w32 b 12; f_yiaddr := w32 b 16; f_siaddr := w32 b 20; f_giaddr := w32 b 24;
     f_chaddr16 := sub b 28 16; f_sname := sub b 44 64; f_file := sub b 108 128; f_cookie := w32 b 236 |}.
