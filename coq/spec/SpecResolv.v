(* C17: independent statement of what a harmless hook environment and a harmless resolv.conf are.
   Nothing here refers to the models of the Go code or to GoFacts; all characters are written out. *)
From PSA Require Import model.Bytes.
Open Scope N_scope.

Definition is_digit (c : N) : bool := (48 <=? c) && (c <=? 57).                                   (* 0-9 *)
Definition is_alpha (c : N) : bool := ((65 <=? c) && (c <=? 90)) || ((97 <=? c) && (c <=? 122)).  (* A-Z a-z *)

(* letters, digits, comma, dot, hyphen, underscore *)
Definition env_safe (c : N) : bool := is_alpha c || is_digit c || (c =? 44) || (c =? 46) || (c =? 45) || (c =? 95).
(* hostname characters *)
Definition host_char (c : N) : bool := is_alpha c || is_digit c || (c =? 46) || (c =? 45).
(* dotted-numeric characters *)
Definition num_char (c : N) : bool := is_digit c || (c =? 46).

Fixpoint strip_prefix (p b : bytes) : option bytes :=
  match p, b with
  | [], _ => Some b
  | x :: p', y :: b' => if x =? y then strip_prefix p' b' else None
  | _ :: _, [] => None
  end.

(* ---- hook environment ---- *)
Definition s_psa : bytes := [80; 83; 65; 95; 68; 72; 67; 80; 67; 95].                              (* "PSA_DHCPC_" *)

(* e is  PSA_DHCPC_<key>=<value>  with a value of safe characters only *)
Definition env_var_ok (key e : bytes) : bool :=
  match strip_prefix (s_psa ++ key ++ [61]) e with
  | Some v => forallb env_safe v
  | None => false
  end.

(* the same when the key is not known: everything after PSA_DHCPC_ is safe up to and after the first "=" *)
Fixpoint safe_then_eq (b : bytes) : bool :=
  match b with
  | [] => false
  | c :: r => if c =? 61 then forallb env_safe r else env_safe c && safe_then_eq r
  end.
Definition psa_var_ok (e : bytes) : bool :=
  match strip_prefix s_psa e with Some r => safe_then_eq r | None => true end.

Definition s_keys : list bytes :=
  [[73; 80; 86; 52; 95; 82; 79; 85; 84; 69; 82];              (* IPV4_ROUTER *)
   [73; 80; 86; 52; 95; 65; 68; 68; 82; 69; 83; 83];          (* IPV4_ADDRESS *)
   [78; 69; 84; 77; 65; 83; 75];                              (* NETMASK *)
   [68; 79; 77; 65; 73; 78; 95; 78; 65; 77; 69];              (* DOMAIN_NAME *)
   [68; 78; 83; 95; 76; 73; 83; 84];                          (* DNS_LIST *)
   [77; 84; 85];                                              (* MTU *)
   [76; 69; 65; 83; 69; 95; 83; 69; 67]].                     (* LEASE_SEC *)

Fixpoint forallb2 {A B} (f : A -> B -> bool) (l : list A) (m : list B) : bool :=
  match l, m with
  | [], [] => true
  | a :: l', b :: m' => f a b && forallb2 f l' m'
  | _, _ => false
  end.
(* exactly the seven variables, in order, each with a safe value *)
Definition script_env_ok (es : list bytes) : bool := forallb2 env_var_ok s_keys es.

(* ---- resolv.conf grammar ---- *)
Definition s_header : bytes :=                                                                  (* "# written by psa-dhcpc\n" *)
  [35; 32; 119; 114; 105; 116; 116; 101; 110; 32; 98; 121; 32; 112; 115; 97; 45; 100; 104; 99; 112; 99; 10].
Definition s_search : bytes := [115; 101; 97; 114; 99; 104; 32].                                 (* "search " *)
Definition s_ns : bytes := [110; 97; 109; 101; 115; 101; 114; 118; 101; 114; 32].                (* "nameserver " *)

Definition token (cls : N -> bool) (t : bytes) : Prop := t <> [] /\ Forall (fun c => cls c = true) t.

(*   file    ::= header [ "search " host-token "\n" ] ns-line*
     ns-line ::= "nameserver " num-token "\n"                                  *)
Inductive ns_lines : bytes -> Prop :=
| nl_nil : ns_lines []
| nl_cons : forall t rest, token num_char t -> ns_lines rest -> ns_lines (s_ns ++ t ++ 10 :: rest).

Inductive resolv_file : bytes -> Prop :=
| rf_plain : forall rest, ns_lines rest -> resolv_file (s_header ++ rest)
| rf_search : forall t rest, token host_char t -> ns_lines rest -> resolv_file (s_header ++ s_search ++ t ++ 10 :: rest).

(* the same grammar as a constructor: which tokens the file carries *)
Definition spec_file (dom : option bytes) (nss : list bytes) : bytes :=
  s_header ++ (match dom with Some d => s_search ++ d ++ [10] | None => [] end) ++ flat_map (fun n => s_ns ++ n ++ [10]) nss.

(* boolean recogniser of the grammar (used as run-time monitor on files the real binary wrote) *)
Fixpoint span (cls : N -> bool) (b : bytes) : bytes * bytes :=
  match b with
  | c :: r => if cls c then let (t, r') := span cls r in (c :: t, r') else ([], b)
  | [] => ([], [])
  end.

(* one line  kw token "\n"  at the front of b; returns what follows *)
Definition line_ok (kw : bytes) (cls : N -> bool) (b : bytes) : option bytes :=
  match strip_prefix kw b with
  | None => None
  | Some r => match span cls r with
              | (_ :: _, 10 :: r') => Some r'
              | _ => None
              end
  end.

Fixpoint ns_lines_ok (fuel : nat) (b : bytes) : bool :=
  match b with
  | [] => true
  | _ :: _ => match fuel with
              | O => false
              | S f => match line_ok s_ns num_char b with Some r => ns_lines_ok f r | None => false end
              end
  end.

Definition resolv_ok (f : bytes) : bool :=
  match strip_prefix s_header f with
  | None => false
  | Some r =>
    let r1 := match line_ok s_search host_char r with Some r' => r' | None => r end in
    ns_lines_ok (length r1) r1
  end.

(* ---- which file belongs to an environment (functional specification) ---- *)
Definition s_key_domain : bytes := s_psa ++ [68; 79; 77; 65; 73; 78; 95; 78; 65; 77; 69].       (* PSA_DHCPC_DOMAIN_NAME *)
Definition s_key_dns : bytes := s_psa ++ [68; 78; 83; 95; 76; 73; 83; 84].                      (* PSA_DHCPC_DNS_LIST *)

Definition is_token (cls : N -> bool) (t : bytes) : bool :=
  match t with [] => false | _ => forallb cls t end.

(* values of all entries  key=value  of the environment, in order *)
Definition values_of (key : bytes) (env : list bytes) : list bytes :=
  flat_map (fun e => match strip_prefix (key ++ [61]) e with Some v => [v] | None => [] end) env.

(* comma separated pieces *)
Fixpoint pieces_acc (cur : bytes) (b : bytes) : list bytes :=
  match b with
  | [] => [rev cur]
  | c :: r => if c =? 44 then rev cur :: pieces_acc [] r else pieces_acc (c :: cur) r
  end.
Definition pieces (b : bytes) : list bytes := pieces_acc [] b.

(* the valid name-server tokens supplied, in order; the last valid domain supplied *)
Definition spec_nameservers (env : list bytes) : list bytes :=
  flat_map (fun v => filter (is_token num_char) (pieces v)) (values_of s_key_dns env).
Definition spec_domain (env : list bytes) : option bytes :=
  match rev (filter (is_token host_char) (values_of s_key_domain env)) with d :: _ => Some d | [] => None end.

(* None = the file is not touched *)
Definition spec_render (env : list bytes) : option bytes :=
  match spec_nameservers env with
  | [] => None
  | nss => Some (spec_file (spec_domain env) nss)
  end.
