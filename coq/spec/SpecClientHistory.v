(* C15 over whole histories.  A run of the client is the list of its Run-loop iterations (run_steps); a history
   summary ("ghost") is folded over that list using only what each iteration shows from outside: the name of the
   state it ran in, the outcome of its blocking operation, the interface operations and first transmissions it
   produced, and the instants.  step_ok says what the property demands of an iteration given the summary of
   everything before it; the theorem is that every iteration of every run from the initial state, for every script
   of outcomes, link-up events included, satisfies it. *)
From PSA Require Import gen.GoFacts model.Bytes model.Client.
Open Scope Z_scope.

Record srec := { sr_pre : cst; sr_ev : cevent; sr_cancel : bool; sr_acts : list action; sr_post : cst; sr_status : rstatus }.

Fixpoint run_steps (croute : bool) (s : cst) (script : list (cevent * bool)) : list srec :=
  match script with
  | [] => []
  | (e, cancelled) :: rest =>
    let '(s', acts, st) := run_iter croute s e cancelled in
    let r := {| sr_pre := s; sr_ev := e; sr_cancel := cancelled; sr_acts := acts; sr_post := s'; sr_status := st |} in
    match st with
    | Running => r :: run_steps croute s' rest
    | Returned => r :: run_steps croute (resume s') rest
    | Crashed => [r]
    end
  end.

(* ---------- the history summary ---------- *)

Inductive pend := PNone | PMustPurge | PMustDiscover | PMustRebind (d : Z).

Record ghost := {
  g_ack : option lease_info;    (* the most recent accepted ACK (accepted reply of a selecting / renewing / rebinding exchange) *)
  g_arp_clean : bool;           (* an ARP check after it ended without a foreign answer *)
  g_conf : option netconf;      (* what the interface holds, by the interface operations seen *)
  g_bound_at : Z;               (* when it was configured *)
  g_linkup : option Z;          (* the last link-up since then *)
  g_pending : pend }.           (* what the property requires of the next iteration *)

Definition ghost0 : ghost :=
  {| g_ack := None; g_arp_clean := false; g_conf := None; g_bound_at := 0; g_linkup := None; g_pending := PMustPurge |}.

Definition ghost_act (g : ghost) (a : action) : ghost :=
  match a with
  | ASetIface t c true =>
    {| g_ack := g_ack g; g_arp_clean := g_arp_clean g; g_conf := Some c; g_bound_at := t; g_linkup := None; g_pending := g_pending g |}
  | AUnconfigure _ =>
    {| g_ack := g_ack g; g_arp_clean := g_arp_clean g; g_conf := None; g_bound_at := g_bound_at g; g_linkup := g_linkup g; g_pending := g_pending g |}
  | _ => g
  end.

Definition is_ack_phase (p : cphase) : bool := match p with PSelect | PRenew | PRebind => true | _ => false end.

Definition ghost_reply (g : ghost) (p : cphase) (e : cevent) : ghost :=
  match e with
  | EExchange _ (XAccept _ l) =>
    if is_ack_phase p then
      {| g_ack := Some l; g_arp_clean := false; g_conf := g_conf g; g_bound_at := g_bound_at g; g_linkup := g_linkup g; g_pending := g_pending g |}
    else g
  | EArp (AForeign _) => g
  | EArp _ =>
    match p with
    | PArp => {| g_ack := g_ack g; g_arp_clean := true; g_conf := g_conf g; g_bound_at := g_bound_at g; g_linkup := g_linkup g; g_pending := g_pending g |}
    | _ => g
    end
  | _ => g
  end.

(* does the outcome belong to the state (the automaton ignores one that does not; none is ever generated) *)
Definition fits (p : cphase) (e : cevent) : bool :=
  match p, e with
  | PPurge, _ => true
  | PDiscover, EExchange _ _ | PSelect, EExchange _ _ | PRenew, EExchange _ _ | PRebind, EExchange _ _ => true
  | PArp, EArp _ => true
  | PIfconfig, ESetIface _ _ => true
  | PBound, ESleep _ => true
  | _, _ => false
  end.

(* is a validated lease held when this iteration ends (so that a link-up re-validates rather than restarts) *)
Definition held_after (p : cphase) (e : cevent) : bool :=
  if fits p e then
    match p, e with
    | PIfconfig, ESetIface true _ => true
    | PBound, ESleep _ => true
    | PRenew, EExchange _ XTimeout | PRenew, EExchange _ (XCancel _) => true
    | _, _ => false
    end
  else match p with PBound | PRenew | PRebind => true | _ => false end.

Definition pending_after (p : cphase) (e : cevent) : pend :=
  match p, e with
  | PPurge, _ => PMustDiscover
  | PSelect, EExchange _ (XAccept _ _) => PNone
  | PSelect, EExchange _ _ => PMustDiscover
  | PRenew, EExchange _ (XNak _) => PMustPurge
  | PRebind, EExchange _ (XAccept _ _) => PNone
  | PRebind, EExchange _ _ => PMustPurge
  | PArp, EArp (AForeign _) => PMustPurge
  | PIfconfig, ESetIface false _ => PMustPurge
  | _, _ => PNone
  end.

(* the iteration ran to its end / was ended by a link-up at instant tl *)
Definition gn_run (g2 : ghost) (p : cphase) (e : cevent) : ghost :=
  {| g_ack := g_ack g2; g_arp_clean := g_arp_clean g2; g_conf := g_conf g2; g_bound_at := g_bound_at g2;
     g_linkup := g_linkup g2; g_pending := pending_after p e |}.
Definition gn_ret (g2 : ghost) (p : cphase) (e : cevent) (tl : Z) : ghost :=
  {| g_ack := g_ack g2; g_arp_clean := g_arp_clean g2; g_conf := g_conf g2; g_bound_at := g_bound_at g2;
     g_linkup := Some tl;
     g_pending := if held_after p e then PMustRebind (tl + resume_deadline) else PMustPurge |}.

Definition ghost_next (g : ghost) (r : srec) : ghost :=
  let p := c_phase (sr_pre r) in
  let g2 := fold_left ghost_act (sr_acts r) (ghost_reply g p (sr_ev r)) in
  match sr_status r with
  | Returned => gn_ret g2 p (sr_ev r) (c_now (sr_post r))
  | _ => gn_run g2 p (sr_ev r)
  end.

(* T1 / T2 / expiry as the history determines them: from the instant of configuration and the ACK in force,
   or resume_deadline after the last link-up *)
Definition g_deadlines (g : ghost) (l : lease_info) : Z * Z * Z :=
  match g_linkup g with
  | Some tl => (tl + resume_deadline, tl + resume_deadline, tl + resume_deadline)
  | None => deadlines (g_bound_at g) l
  end.

Definition kind_of (p : cphase) : N := match p with PDiscover => 1 | PSelect => 2 | PRenew => 3 | PRebind => 4 | _ => 0 end%N.

(* ---------- what the property demands of one iteration, given the history before it ---------- *)
Definition step_ok (croute : bool) (g : ghost) (r : srec) : Prop :=
  let p := c_phase (sr_pre r) in let t := c_now (sr_pre r) in
  (* the interface is configured only with the parameters of the most recent accepted ACK, after a clean ARP check *)
  (forall ta c ok, In (ASetIface ta c ok) (sr_acts r) ->
     exists l, g_ack g = Some l /\ g_arp_clean g = true /\ c = build_netconf croute l /\ ta = t) /\
  (* while a lease is in use the interface holds exactly the configuration of the ACK in force; while discovering it holds none *)
  (p = PBound \/ p = PRenew \/ p = PRebind -> exists l, g_ack g = Some l /\ g_conf g = Some (build_netconf croute l)) /\
  (p = PDiscover \/ p = PSelect -> g_conf g = None) /\
  (* what the previous iteration made necessary happens now: removal of the configuration (NAK, expiry, conflict, failed
     configuration, link-up without a validated lease), rediscovery, or re-validation by rebinding *)
  match g_pending g with
  | PNone => True
  | PMustPurge => p = PPurge
  | PMustDiscover => p = PDiscover
  | PMustRebind d => p = PRebind /\ (forall pre, sr_status r <> Crashed -> sr_ev r = EExchange pre XTimeout -> c_now (sr_post r) = Z.max t d)
  end /\
  (p = PPurge -> firstn 2 (sr_acts r) = [AUnconfigure t; AUp t] /\ g_conf (ghost_next g r) = None) /\
  (* an address conflict or a failed configuration removes the configuration in the same iteration *)
  (forall dt, p = PArp -> sr_ev r = EArp (AForeign dt) -> In (AUnconfigure (t + dt)) (sr_acts r) /\ g_conf (ghost_next g r) = None) /\
  (forall ca, p = PIfconfig -> sr_ev r = ESetIface false ca -> g_conf (ghost_next g r) = None) /\
  (* first transmissions are of the kind of the state: unicast renewal only when renewing, broadcast rebinding only when rebinding *)
  (forall ta k, In (AExchange ta k) (sr_acts r) -> k = kind_of p /\ k <> 0%N) /\
  (* renewal starts at T1, rebinding at T2, the lease is given up at expiry *)
  (sr_status r <> Crashed ->
   forall l, g_ack g = Some l ->
     let '(T1, T2, TX) := g_deadlines g l in
     (p = PBound -> sr_ev r = ESleep None -> c_phase (sr_post r) = PRenew /\ c_now (sr_post r) = Z.max t T1) /\
     (p = PRenew -> forall pre, sr_ev r = EExchange pre XTimeout -> c_phase (sr_post r) = PRebind /\ c_now (sr_post r) = Z.max t T2) /\
     (p = PRebind -> forall pre, sr_ev r = EExchange pre XTimeout -> c_now (sr_post r) = Z.max t TX /\ g_pending (ghost_next g r) <> PNone)).

Fixpoint hist_ok (croute : bool) (g : ghost) (steps : list srec) : Prop :=
  match steps with
  | [] => True
  | r :: rest => step_ok croute g r /\ hist_ok croute (ghost_next g r) rest
  end.

(* hist_ok unfolded: the i-th iteration satisfies step_ok with the summary of the i iterations before it *)
Fixpoint summary (g : ghost) (steps : list srec) : ghost :=
  match steps with [] => g | r :: rest => summary (ghost_next g r) rest end.

