(* C20: what an observer may see - written as boolean checks that are run on samples and directory listings taken from
   the real binary on the real kernel.  Proved (proofs/FsProofs.v) to accept every reachable state of model/Fs.v. *)
From Coq Require Import List NArith Bool.
From PSA Require Import gen.GoFacts model.Bytes model.Fs.
Import ListNotations.
Open Scope N_scope.

Definition file_eqb (a b : file) : bool := bytes_eqb (f_data a) (f_data b) && (f_mode a =? f_mode b).
Definition ofile_eqb (a b : option file) : bool :=
  match a, b with
  | None, None => true
  | Some x, Some y => file_eqb x y
  | _, _ => false
  end.

Fixpoint is_prefixb (p b : bytes) : bool :=
  match p, b with
  | [], _ => true
  | x :: p', y :: b' => (x =? y) && is_prefixb p' b'
  | _ :: _, [] => false
  end.

(* resolvconf-<anything>.tmp *)
Definition tmp_shape (n : bytes) : bool :=
  is_prefixb gf_resolv_tmp_prefix n && is_prefixb (rev gf_resolv_tmp_suffix) (rev n)
  && (length gf_resolv_tmp_prefix + length gf_resolv_tmp_suffix <=? length n)%nat.

(* what a reader of resolv.conf may get: what was there before, or one writer's complete buffer with the final mode *)
Definition sample_ok (before : option file) (bufs : list bytes) (o : option file) : bool :=
  ofile_eqb o before || existsb (fun b => ofile_eqb o (Some (final_file b))) bufs.
(* content only (a reader that cannot stat) *)
Definition content_ok (before : option bytes) (bufs : list bytes) (o : option bytes) : bool :=
  match o, before with
  | None, None => true
  | Some x, Some y => bytes_eqb x y || existsb (bytes_eqb x) bufs
  | Some x, None => existsb (bytes_eqb x) bufs
  | None, Some _ => false
  end.

(* a temp file: a prefix of its writer's buffer, mode 0600 - or complete with the final mode *)
Definition tmp_file_ok (f : file) (b : bytes) : bool :=
  is_prefixb (f_data f) b && ((f_mode f =? tmp_mode) || file_eqb f (final_file b)).

Definition entry_ok (d0 : dir) (bufs : list bytes) (n : bytes) (f : file) : bool :=
  bytes_eqb n resolv_name || ofile_eqb (lookup n d0) (Some f) || (tmp_shape n && existsb (tmp_file_ok f) bufs).

(* any instant *)
Definition dir_ok (d0 : dir) (bufs : list bytes) (d : dir) : bool :=
  sample_ok (lookup resolv_name d0) bufs (lookup resolv_name d)
  && forallb (fun e => match lookup (fst e) d with Some f => entry_ok d0 bufs (fst e) f | None => true end) d
  && forallb (fun e => bytes_eqb (fst e) resolv_name || ofile_eqb (lookup (fst e) d) (lookup (fst e) d0)) d0.

(* when every writer has returned (nil, or an error with its temp file removed): nothing but the initial files and resolv.conf *)
Definition quiet_ok (d0 : dir) (bufs : list bytes) (d : dir) : bool :=
  dir_ok d0 bufs d
  && forallb (fun e => bytes_eqb (fst e) resolv_name || ofile_eqb (lookup (fst e) d) (lookup (fst e) d0)) d.
