(* The reference lease table of C11: a list of bindings (address, client, expiry, permanent) scanned
   for live entries.  No key index, no lazy deletion, no pointers. *)
From PSA Require Import model.Bytes model.Clients.
Open Scope N_scope.

Definition table := list entry.

Definition has_key (k : key) (e : entry) : bool :=
  match k with KIp ip => e_ip e =? ip | KDuid d => bytes_eqb (e_duid e) d end.

(* index of the first live binding carrying key k *)
Fixpoint find_live (now : Z) (k : key) (t : table) (i : nat) : option nat :=
  match t with
  | [] => None
  | e :: r => if live now e && has_key k e then Some i else find_live now k r (S i)
  end.

Definition t_lookup (now : Z) (ip : N) (duid : bytes) (t : table) : option nat * option nat :=
  (find_live now (KIp ip) t 0, find_live now (KDuid duid) t 0).

Definition t_inject (now : Z) (ip : N) (duid : bytes) (until : Z) (perm : bool) (t : table) : bool * table :=
  match t_lookup now ip duid t with
  | (None, None) => (true, t ++ [{| e_ip := ip; e_duid := duid; e_until := until; e_perm := perm |}])
  | _ => (false, t)
  end.

Definition t_set_lease (now : Z) (ip : N) (duid : bytes) (until : Z) (t : table) : bool * table :=
  match t_lookup now ip duid t with
  | (Some p, Some q) => if Nat.eqb p q then (true, set_until t p until) else (false, t)
  | _ => (false, t)
  end.

(* at most one live binding per address and per client *)
Definition unique_live (now : Z) (t : table) : Prop :=
  forall k p q e1 e2, nth_error t p = Some e1 -> nth_error t q = Some e2 ->
    live now e1 = true -> live now e2 = true -> has_key k e1 = true -> has_key k e2 = true -> p = q.

(* what a client / an address is bound to at an instant *)
Definition bound_ip (now : Z) (duid : bytes) (t : table) : option N :=
  match find_live now (KDuid duid) t 0 with Some p => option_map e_ip (nth_error t p) | None => None end.
Definition bound_duid (now : Z) (ip : N) (t : table) : option bytes :=
  match find_live now (KIp ip) t 0 with Some p => option_map e_duid (nth_error t p) | None => None end.
