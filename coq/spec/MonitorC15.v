(* C15 evaluated on the implementation's own history.  The harness records, with the instants of its virtual clock,
   what it did to the client (the outcome it arranged for each blocking operation, in the order the client reached
   them, with the kind of exchange read off the client's first frame) and what the client did (interface operations
   with the configuration handed over, first transmissions).  mon_C15 reads the clauses of the property off these two
   lists; it does not run the automaton model.  The only functions shared with the model are build_netconf (which
   fields of an ACK make up a configuration) and deadlines (T1/T2/expiry of a lease), both characterised by theorems of
   their own (C15_netconf_fields, C15_deadlines_ordered, C15_server_times_iff_consistent, C15_deadline_values).

   Result: the list of clauses violated (empty = the history satisfies the property):
     1  interface configured without an accepted ACK followed by a clean ARP check
     2  configured parameters are not those of the most recent accepted ACK
     3  address conflict not answered by removing the configuration at once
     4  failed configuration not answered by removing the configuration at once
     5  NAK while renewing / rebinding not answered by removing the configuration at once
     6  discovery not restarted (the next exchange after a failed one is not a DISCOVER)
     7  renewal does not start at T1 with a unicast REQUEST
     8  rebinding does not start at T2
     9  lease not given up at its expiry
     10 link-up while holding a lease not answered by rebinding at once
     11 interface configured outside the configuration step
     12 renewal / rebinding without a configured lease *)
From PSA Require Import gen.GoFacts model.Bytes model.Client.
Open Scope Z_scope.

(* one entry of the harness's record: the outcome, whether a link-up ended the operation, the instant the client
   began it, and (for an exchange) its kind as seen on the wire: 1 discover 2 selecting 3 renewing 4 rebinding *)
Record oev := { oe_ev : cevent; oe_cancel : bool; oe_t : Z; oe_kind : N }.

Definition leq_list (a b : list N) : bool := if list_eq_dec N.eq_dec a b then true else false.
Definition netconf_eqb (a b : netconf) : bool :=
  (nc_ip a =? nc_ip b)%N && leq_list (nc_mask a) (nc_mask b) &&
  match nc_router a, nc_router b with Some x, Some y => (x =? y)%N | None, None => true | _, _ => false end &&
  (nc_mtu a =? nc_mtu b)%N && leq_list (nc_dns a) (nc_dns b) && leq_list (nc_domain a) (nc_domain b) && (nc_lease a =? nc_lease b).

Definition has_unconf (acts : list action) (t : Z) : bool :=
  existsb (fun a => match a with AUnconfigure t' => t' =? t | _ => false end) acts.
Definition setiface_at (acts : list action) (t : Z) : option (netconf * bool) :=
  match find (fun a => match a with ASetIface t' _ _ => t' =? t | _ => false end) acts with
  | Some (ASetIface _ c ok) => Some (c, ok)
  | _ => None
  end.

Record mst := {
  m_ack : option lease_info;          (* most recent accepted ACK *)
  m_arp : bool;                       (* clean ARP check since *)
  m_bound : option (Z * lease_info);  (* configured at, with *)
  m_link : option Z;                  (* link-up since then *)
  m_expect : option (N * option Z * N); (* the next exchange must be of this kind (at this instant), else this clause fails *)
  m_bad : list N }.

Definition m0 : mst := {| m_ack := None; m_arp := false; m_bound := None; m_link := None; m_expect := None; m_bad := [] |}.

Definition upd (s : mst) (ack : option lease_info) (arp : bool) (bound : option (Z * lease_info)) (link : option Z)
               (expect : option (N * option Z * N)) (bad : list N) : mst :=
  {| m_ack := ack; m_arp := arp; m_bound := bound; m_link := link; m_expect := expect; m_bad := m_bad s ++ bad |}.

Definition flag (b : bool) (clause : N) : list N := if b then [] else [clause].

(* T1, T2, expiry of the lease in use *)
Definition cur_deadlines (s : mst) : option (Z * Z * Z) :=
  match m_bound s with
  | None => None
  | Some (tb, l) => Some (match m_link s with
                          | Some tl => (tl + resume_deadline, tl + resume_deadline, tl + resume_deadline)
                          | None => deadlines tb l
                          end)
  end.

(* lim: demands on what the client does are made up to this instant only (end of the record; a client that is
   about to abort in its rate limiter does nothing for the 20 s before) *)
Definition mon_step (croute : bool) (lim : Z) (acts : list action) (s : mst) (e : oev) : mst :=
  let t := oe_t e in
  let demand_unconf (at_ : Z) (clause : N) := flag ((lim <? at_) || has_unconf acts at_) clause in
  let restart := Some (1%N, None, 6%N) in
  match oe_ev e with
  | EPurge => upd s (m_ack s) (m_arp s) None (m_link s) restart []
  | EExchange pre o =>
    let k := oe_kind e in
    (* is this the exchange that had to come? *)
    let exp_bad := match m_expect s with
                   | None => []
                   | Some (k', when, clause) => flag ((k =? k')%N && match when with Some w => t =? w | None => true end) clause
                   end in
    let held_bad := flag (negb ((k =? 3)%N || (k =? 4)%N) || match m_bound s with Some _ => true | None => false end) 12%N in
    let s := upd s (m_ack s) (m_arp s) (m_bound s) (m_link s) None (exp_bad ++ held_bad) in
    match k, o with
    | 1%N, XAccept dt _ => upd s (m_ack s) (m_arp s) (m_bound s) (m_link s) (Some (2%N, Some (t + dt), 6%N)) []
    | 1%N, _ => upd s (m_ack s) (m_arp s) (m_bound s) (m_link s) restart []
    | 2%N, XAccept _ l => upd s (Some l) false (m_bound s) (m_link s) None []
    | 2%N, _ => upd s (m_ack s) (m_arp s) (m_bound s) (m_link s) restart []
    | 3%N, XAccept _ l => upd s (Some l) false (m_bound s) (m_link s) None []
    | 3%N, XNak dt => upd s (m_ack s) (m_arp s) None (m_link s) restart (demand_unconf (t + dt) 5%N)
    | 3%N, XTimeout =>
      match cur_deadlines s with
      | Some (_, T2, _) => upd s (m_ack s) (m_arp s) (m_bound s) (m_link s) (Some (4%N, Some (Z.max t T2), 8%N)) []
      | None => s
      end
    | 3%N, XCancel dt => upd s (m_ack s) (m_arp s) (m_bound s) (Some (t + dt)) (Some (4%N, Some (t + dt), 10%N)) []
    | 4%N, XAccept _ l => upd s (Some l) false (m_bound s) (m_link s) None []
    | 4%N, XNak dt => upd s (m_ack s) (m_arp s) None (m_link s) restart (demand_unconf (t + dt) 5%N)
    | 4%N, XTimeout =>
      match cur_deadlines s with
      | Some (_, _, TX) => upd s (m_ack s) (m_arp s) None (m_link s) restart (demand_unconf (Z.max t TX) 9%N)
      | None => s
      end
    | 4%N, XCancel dt => upd s (m_ack s) (m_arp s) None (m_link s) restart (demand_unconf (t + dt) 9%N)
    | _, _ => s
    end
  | EArp o =>
    match o with
    | ANone | AOwn _ => upd s (m_ack s) true (m_bound s) (m_link s) (m_expect s) []
    | AForeign dt => upd s (m_ack s) false None (m_link s) restart (demand_unconf (t + dt) 3%N)
    | ACancelled _ => upd s (m_ack s) false None (m_link s) restart []
    end
  | ESetIface ok _ =>
    let cfg_bad :=
      match m_ack s, setiface_at acts t with
      | Some l, Some (c, _) => flag (m_arp s) 1%N ++ flag (netconf_eqb c (build_netconf croute l)) 2%N
      | None, Some _ => [1%N]
      | _, None => [11%N]
      end in
    if ok then
      (* a link-up while the interface was being configured: the lease just configured is held, so it is re-validated at once *)
      if oe_cancel e then upd s (m_ack s) (m_arp s) (match m_ack s with Some l => Some (t, l) | None => None end) (Some t)
                              (Some (4%N, Some t, 10%N)) cfg_bad
      else upd s (m_ack s) (m_arp s) (match m_ack s with Some l => Some (t, l) | None => None end) None None cfg_bad
    else upd s (m_ack s) (m_arp s) None (m_link s) restart (cfg_bad ++ demand_unconf t 4%N)
  | ESleep cancel_at =>
    match cancel_at, cur_deadlines s with
    | None, Some (T1, _, _) => upd s (m_ack s) (m_arp s) (m_bound s) (m_link s) (Some (3%N, Some (Z.max t T1), 7%N)) []
    | Some d, Some _ => upd s (m_ack s) (m_arp s) (m_bound s) (Some (t + d)) (Some (4%N, Some (t + d), 10%N)) []
    | _, None => s
    end
  end.

(* every configuration of the interface happens in a configuration step of the record *)
Definition stray_setiface (evs : list oev) (acts : list action) : list N :=
  flag (forallb (fun a => match a with
                          | ASetIface t _ _ => existsb (fun e => match oe_ev e with ESetIface _ _ => oe_t e =? t | _ => false end) evs
                          | _ => true
                          end) acts) 11%N.

Definition crash_limit (horizon : Z) (acts : list action) : Z :=
  fold_left (fun lim a => match a with ACrash tc => Z.min lim (tc - 20 * ns_s - 1) | _ => lim end) acts horizon.

Definition mon_C15 (croute : bool) (horizon : Z) (evs : list oev) (acts : list action) : list N :=
  m_bad (fold_left (mon_step croute (crash_limit horizon acts) acts) evs m0) ++ stray_setiface evs acts.
