(* Independent statements, on raw bytes, of
     - which received packets a waiting DHCP client may take as its OFFER / ACK / NAK (C14),
     - what a well-formed client message of each kind looks like (C16).
   Everything is read by offset from the packet (RFC 791 / 768 / 2131 / 2132); nothing here refers
   to the models of the Go code.  Both recognisers are boolean functions, so that they can be
   evaluated on the packets of the running implementation as monitors. *)
From PSA Require Import model.Bytes spec.SpecCodec.
Open Scope N_scope.

(* ---- what the client is waiting for ---- *)
Inductive wkind := KOffer | KSelecting | KRenewing | KRebinding.

Record wait := {
  w_kind : wkind;
  w_xid : N;               (* transaction id of the request in flight *)
  w_yiaddr : N;            (* the address offered / leased (unused while waiting for an OFFER) *)
  w_sid : option N }.      (* the chosen server (unused while waiting for an OFFER) *)

(* ---- raw accessors ---- *)
Definition bcast : N := 4294967295.

Definition ip_ihl (p : bytes) : N := nth0 p 0 mod 16 * 4.
(* RFC 791: version 4, header length between 20 and the packet, total length = the bytes received *)
Definition ipv4_wellformed (p : bytes) : bool :=
  (nth0 p 0 / 16 =? 4) && (20 <=? ip_ihl p) && (ip_ihl p <=? len p) && (w16 p 2 =? len p).
Definition ip_protocol (p : bytes) : N := nth0 p 9.
Definition ip_source (p : bytes) : N := w32 p 12.
Definition ip_destination (p : bytes) : N := w32 p 16.
Definition ip_payload (p : bytes) : bytes := skipn (N.to_nat (ip_ihl p)) p.

(* RFC 768: at least a header, length field = the bytes carried *)
Definition udp_wellformed (u : bytes) : bool := (8 <=? len u) && (w16 u 4 =? len u).
Definition udp_srcport (u : bytes) : N := w16 u 0.
Definition udp_dstport (u : bytes) : N := w16 u 2.
Definition udp_payload (u : bytes) : bytes := skipn 8 u.

(* RFC 2132 option area  (pad | code len data[len])* end any* : the payload of the LAST option with
   code k.  None = the area is not in the grammar; Some None = in the grammar, no option k. *)
Fixpoint area_find (fuel : nat) (k : N) (a : bytes) (acc : option bytes) : option (option bytes) :=
  match fuel with
  | O => None
  | S f =>
    match a with
    | [] => None
    | c :: r =>
      if c =? 0 then area_find f k r acc
      else if c =? 255 then Some acc
      else match r with
           | [] => None
           | l :: d => if len d <? l then None
                       else area_find f k (skipn (N.to_nat l) d) (if c =? k then Some (firstn (N.to_nat l) d) else acc)
           end
    end
  end.

Definition dhcp_area (d : bytes) : bytes := skipn 240 d.
Definition dhcp_find (d : bytes) (k : N) : option (option bytes) := area_find (length (dhcp_area d)) k (dhcp_area d) None.
(* option k of a BOOTP message with a grammatical option area *)
Definition dhcp_option (d : bytes) (k : N) : option bytes := match dhcp_find d k with Some x => x | None => None end.

(* RFC 2131: fixed part complete, hardware address fits its field, option area in the grammar *)
Definition dhcp_wellformed (d : bytes) : bool :=
  (240 <=? len d) && (nth0 d 2 <=? 16) && match dhcp_find d 53 with Some _ => true | None => false end.
Definition dhcp_chaddr (d : bytes) : bytes := firstn (N.to_nat (nth0 d 2)) (sub d 28 16).
Definition dhcp_xid (d : bytes) : N := w32 d 4.
Definition dhcp_ciaddr (d : bytes) : N := w32 d 12.
Definition dhcp_yiaddr (d : bytes) : N := w32 d 16.

(* an address that can be assigned / can identify a server *)
Definition usable (a : N) : bool := negb (a =? 0) && negb (a =? bcast).
(* the option is present, exactly four bytes long, and its value satisfies P *)
Definition addr_opt (x : option bytes) (P : N -> bool) : bool :=
  match x with Some [a; b; c; d] => P (be32 a b c d) | _ => false end.
Definition byte_opt (x : option bytes) (v : N) : bool := match x with Some [t] => t =? v | _ => false end.

(* ---- C14 ---- *)

(* a DHCP message for this client: UDP (protocol 17) to port 68, everything decodable, carrying its hardware address *)
Definition for_me (own p : bytes) : bool :=
  let u := ip_payload p in let d := udp_payload u in
  ipv4_wellformed p && (ip_protocol p =? 17) && udp_wellformed u && (udp_dstport u =? 68) && dhcp_wellformed d &&
  bytes_eqb (dhcp_chaddr d) own.

Definition expected_type (k : wkind) : N := match k with KOffer => 2 | _ => 5 end.

(* the conditions on the message itself; o is the option lookup *)
Definition accept_fields (w : wait) (xid yiaddr : N) (o : N -> option bytes) : bool :=
  (xid =? w_xid w)                                                               (* the transaction in flight *)
  && byte_opt (o 53) (expected_type (w_kind w))                                  (* OFFER resp. ACK *)
  && usable yiaddr                                                               (* assigned address not 0 / broadcast *)
  && addr_opt (o 54) usable                                                      (* server id present, not 0 / broadcast *)
  && match o 3 with Some r => (4 <=? len r) && (len r mod 4 =? 0) | None => false end   (* at least one router *)
  && match o 51 with Some [a; b; c; d] => 60 <=? be32 a b c d | _ => false end   (* lease of at least one minute *)
  && match w_kind w with
     | KOffer => true
     | KSelecting | KRenewing =>                                                 (* the chosen server confirms the offered address *)
       (yiaddr =? w_yiaddr w) && addr_opt (o 54) (fun s => match w_sid w with Some c => s =? c | None => false end)
     | KRebinding => yiaddr =? w_yiaddr w                                        (* any server confirms the leased address *)
     end.

Definition spec_accept (own : bytes) (w : wait) (p : bytes) : bool :=
  let d := udp_payload (ip_payload p) in
  for_me own p && accept_fields w (dhcp_xid d) (dhcp_yiaddr d) (dhcp_option d).

(* a NAK for this client aborts an exchange that waits for an ACK (reading R4) *)
Definition spec_nack (own : bytes) (w : wait) (p : bytes) : bool :=
  let d := udp_payload (ip_payload p) in
  for_me own p && match w_kind w with KOffer => false | _ => true end && byte_opt (dhcp_option d 53) 6.

(* ---- C16 ---- *)
Inductive rkind := RDiscover | RSelecting | RRenewing | RRebinding.

(* the 15-byte client identifier: type 255, 4-byte IAID, DUID-LL (00 03 00 01) over the first six bytes of the
   hardware address (zero padded) *)
Definition cid_wellformed (hw : bytes) (x : option bytes) : bool :=
  match x with
  | Some (t :: i0 :: i1 :: i2 :: i3 :: rest) => (t =? 255) && bytes_eqb rest ([0; 3; 0; 1] ++ firstn 6 (hw ++ repeat 0 6))
  | _ => false
  end.

Definition absent (x : option bytes) : bool := match x with None => true | Some _ => false end.

(* p is a well-formed client message of kind k for hardware address hw, leased/offered address `leased`, server `server` *)
Definition wellformed_for (k : rkind) (hw : bytes) (leased server : N) (p : bytes) : bool :=
  let u := ip_payload p in let d := udp_payload u in let o := dhcp_option d in
  (* IPv4 + UDP envelope with valid checksums, 68 -> 67 *)
  ipv4_hdr_ok p && ipv4_wellformed p && (ip_protocol p =? 17) && udp_wellformed u && udp_ok (ip_source p) (ip_destination p) u
  && (udp_srcport u =? 68) && (udp_dstport u =? 67)
  (* BOOTREQUEST carrying the hardware address *)
  && dhcp_wellformed d && (nth0 d 0 =? 1) && (nth0 d 1 =? 1) && (nth0 d 2 =? len hw) && bytes_eqb (dhcp_chaddr d) hw
  && (w32 d 236 =? 1669485411)
  (* message type, client identifier, maximum message size, parameter request list *)
  && byte_opt (o 53) (match k with RDiscover => 1 | _ => 3 end)
  && cid_wellformed hw (o 61)
  && match o 57 with Some [a; b] => 576 <=? a * 256 + b | _ => false end     (* RFC 2132 9.10: two octets, 576 is the least legal value *)
  && match o 55 with Some (_ :: _) => true | _ => false end
  (* per kind: addressing, ciaddr, requested address and server identifier *)
  && match k with
     | RDiscover  => (ip_source p =? 0) && (ip_destination p =? bcast) && (dhcp_ciaddr d =? 0) && absent (o 50) && absent (o 54)
     | RSelecting => (ip_source p =? 0) && (ip_destination p =? bcast) && (dhcp_ciaddr d =? 0)
                     && addr_opt (o 50) (fun a => a =? leased) && addr_opt (o 54) (fun s => s =? server)
     | RRenewing  => (ip_source p =? leased) && (ip_destination p =? server) && (dhcp_ciaddr d =? leased) && absent (o 50) && absent (o 54)
     | RRebinding => (ip_source p =? leased) && (ip_destination p =? bcast) && (dhcp_ciaddr d =? leased) && absent (o 50) && absent (o 54)
     end.
