(* The lease database API over the reference table (C11).  Same control structure as the model of
   ipdb.go, but every store access is a scan of the table. *)
From PSA Require Import model.Bytes model.Clients model.Ipdb spec.SpecTable.
Open Scope N_scope.

Definition t_lookup_by_duid (now : Z) (duid : bytes) (t : table) : option N := bound_ip now duid t.

Definition t_add_permanent (x : ipdb) (now : Z) (ip : option N) (duid : bytes) (t : table) : bool * table :=
  match to_uip x ip with
  | None => (false, t)
  | Some n => t_inject now n duid 0%Z true t
  end.

Definition t_update_client (x : ipdb) (now : Z) (ip : option N) (duid : bytes) (ttl : Z) (t : table) : bool * table :=
  match to_uip x ip with
  | None => (false, t)
  | Some n =>
    let until := (now + ttl)%Z in
    let (ok1, t1) := t_set_lease now n duid until t in
    if ok1 then (true, t1) else
    let (ok2, t2) := t_inject now n duid until false t1 in
    if negb ok2 then (false, t2) else t_set_lease now n duid until t2
  end.

Definition t_hold_client (x : ipdb) (now : Z) (ip : option N) (duid : bytes) (ttl : Z) (t : table) : bool * table :=
  match to_uip x ip with
  | None => (false, t)
  | Some n =>
    match t_lookup now n duid t with
    | (Some p, Some q) =>
      if Nat.eqb p q then
        match nth_error t p with
        | Some e => if (now + ttl <? e_until e)%Z then (true, t) else t_update_client x now ip duid ttl t
        | None => t_update_client x now ip duid ttl t
        end
      else t_update_client x now ip duid ttl t
    | _ => t_update_client x now ip duid ttl t
    end
  end.

Fixpoint t_search (cands : list N) (i : nat) (cancelled : nat -> bool) (probe : N -> bool * Z)
                  (now : Z) (x : ipdb) (t : table) : option N * Z :=
  match cands with
  | [] => (None, now)
  | v :: r =>
    if cancelled i then (None, now) else
    let picked := u32 (dyn_from x + v) in
    match find_live now (KIp picked) t 0 with
    | Some _ => t_search r (S i) cancelled probe now x t
    | None =>
      if uip_valid picked then
        let (free, dt) := probe picked in
        if free then (Some picked, (now + dt)%Z) else t_search r (S i) cancelled probe (now + dt)%Z x t
      else t_search r (S i) cancelled probe now x t
    end
  end.

Definition t_find_ip (x : ipdb) (perm : list N) (cancelled : nat -> bool) (probe : N -> bool * Z) (now : Z)
                     (sugg : option N) (duid : bytes) (t : table) : option N * Z :=
  let n := match to_uip x sugg with Some n => n | None => 0 end in
  match bound_ip now duid t with
  | Some a => (Some a, now)
  | None =>
    if dynamic_disabled x then (None, now) else
    let cands := match find_live now (KIp n) t 0 with
                 | None => if (dyn_from x <=? n) && (n <=? dyn_to x) then u32 (n + 4294967296 - dyn_from x) :: perm else perm
                 | Some _ => perm end in
    t_search cands 0 cancelled probe now x t
  end.

Definition t_offer_ip (x : ipdb) (perm : list N) (cancelled : nat -> bool) (probe : N -> bool * Z) (now : Z)
                      (sugg : option N) (duid : bytes) (ttl : Z) (t : table) : option N * table * Z :=
  let (r, t1) := t_find_ip x perm cancelled probe now sugg duid t in
  match r with
  | None => (None, t, t1)
  | Some a => let (ok, t2) := t_hold_client x t1 (Some a) duid ttl t in ((if ok then Some a else None), t2, t1)
  end.

(* ---- histories ---- *)
Inductive dbop :=
| OpUpdate (ip : option N) (duid : bytes) (ttl : Z)
| OpLookup (duid : bytes)
| OpAddPerm (ip : option N) (duid : bytes)
| OpFind (perm : list N) (cancelled : nat -> bool) (probe : N -> bool * Z) (sugg : option N) (duid : bytes)
| OpHold (ip : option N) (duid : bytes) (ttl : Z)
| OpOffer (perm : list N) (cancelled : nat -> bool) (probe : N -> bool * Z) (sugg : option N) (duid : bytes) (ttl : Z).

Inductive dbres := RBool (b : bool) | RIp (o : option N).

Definition c_step (x : ipdb) (now : Z) (op : dbop) : dbres * ipdb * Z :=
  match op with
  | OpUpdate ip d ttl => let (ok, x') := update_client now ip d ttl x in (RBool ok, x', now)
  | OpLookup d => let (r, x') := lookup_by_duid now d x in (RIp r, x', now)
  | OpAddPerm ip d => let (ok, x') := add_permanent now ip d x in (RBool ok, x', now)
  | OpFind perm c pr sg d => let '(r, x', now') := find_ip perm c pr now sg d x in (RIp r, x', now')
  | OpHold ip d ttl => let (ok, x') := hold_client now ip d ttl x in (RBool ok, x', now)
  | OpOffer perm c pr sg d ttl => let '(r, x', now') := offer_ip perm c pr now sg d ttl x in (RIp r, x', now')
  end.

Definition t_step (x : ipdb) (t : table) (now : Z) (op : dbop) : dbres * table * Z :=
  match op with
  | OpUpdate ip d ttl => let (ok, t') := t_update_client x now ip d ttl t in (RBool ok, t', now)
  | OpLookup d => (RIp (t_lookup_by_duid now d t), t, now)
  | OpAddPerm ip d => let (ok, t') := t_add_permanent x now ip d t in (RBool ok, t', now)
  | OpFind perm c pr sg d => let (r, now') := t_find_ip x perm c pr now sg d t in (RIp r, t, now')
  | OpHold ip d ttl => let (ok, t') := t_hold_client x now ip d ttl t in (RBool ok, t', now)
  | OpOffer perm c pr sg d ttl => let '(r, t', now') := t_offer_ip x perm c pr now sg d ttl t in (RIp r, t', now')
  end.

(* a history: before each operation the clock advances by dt *)
Fixpoint c_run (x : ipdb) (now : Z) (h : list (Z * dbop)) : list dbres :=
  match h with
  | [] => []
  | (dt, op) :: r => let '(res, x', now') := c_step x (now + dt)%Z op in res :: c_run x' now' r
  end.

Fixpoint t_run (x : ipdb) (t : table) (now : Z) (h : list (Z * dbop)) : list dbres :=
  match h with
  | [] => []
  | (dt, op) :: r => let '(res, t', now') := t_step x t (now + dt)%Z op in res :: t_run x t' now' r
  end.

Definition probe_nonneg (op : dbop) : Prop :=
  match op with OpFind _ _ pr _ _ => forall a, (0 <= snd (pr a))%Z | OpOffer _ _ pr _ _ _ => forall a, (0 <= snd (pr a))%Z | _ => True end.
Definition clock_ok (h : list (Z * dbop)) : Prop := Forall (fun p => (0 <= fst p)%Z /\ probe_nonneg (snd p)) h.
