(* The properties C01-C08, C10 as decidable predicates over OBSERVED server histories (packets in,
   frames out with times, ARP responders, live-binding snapshots).  They are evaluated by the extracted
   code on what the implementation did.  Written against the wire format only: frames are parsed with the
   decoders whose agreement with the RFC grammar is proved in C12/C13. *)
From PSA Require Import gen.GoFacts model.Bytes model.Layer model.Dhcp model.Clients model.Ipdb model.IpdbCheck model.Server spec.SpecCodec.
Open Scope N_scope.

Record pin := { pi_src : N; pi_dst : N; pi_msg : dhcp_msg; pi_opt : decoded_options }.
Record pout := { po_t : Z; po_eth : bytes; po_ipsrc : N; po_ipdst : N; po_proto : N; po_sport : N; po_dport : N;
                 po_msg : dhcp_msg; po_opt : decoded_options }.

Definition parse_in (pkt : bytes) : option pin :=
  match decode_chain pkt with
  | Some (s, d, m) => Some {| pi_src := s; pi_dst := d; pi_msg := m; pi_opt := decode_options (d_options m) |}
  | None => None
  end.

Definition parse_out (f : out_frame) : option pout :=
  match decode_ipv4 (of_pkt f) with
  | Ok v4 => match decode_udp (ip_data v4) with
             | Ok u => match dhcp_decode (udp_data u) with
                       | Ok m => Some {| po_t := of_t f; po_eth := of_eth f; po_ipsrc := ip_src v4; po_ipdst := ip_dst v4; po_proto := ip_proto v4;
                                         po_sport := udp_sport u; po_dport := udp_dport u; po_msg := m; po_opt := decode_options (d_options m) |}
                       | _ => None end
             | _ => None end
  | _ => None
  end.

Definition typ (p : pout) : N := o_msgtype (po_opt p).
Definition is_lease_reply (p : pout) : bool := (typ p =? 2) || (typ p =? 5).

(* R1: who is "a client": reserved hardware address, else a usable client identifier, else the hardware address *)
Definition usable_cid (cid : bytes) : bool := (4 <=? len cid) && negb (internal_prefix cid).
Definition pid (c : scfg) (m : dhcp_msg) (o : decoded_options) : bytes :=
  match reserved_ip c (d_chaddr m) with
  | Some _ => 0 :: d_chaddr m
  | None => if usable_cid (o_cid o) then 1 :: o_cid o else 0 :: d_chaddr m
  end.

(* one event per lease reply: (kind 2/5, address, client, arrival of the request it answers, send time) *)
Record lev := { le_typ : N; le_ip : N; le_pid : bytes; le_mac : bytes; le_arr : Z; le_sent : Z; le_opts : list dhcp_opt }.

Definition round_events (c : scfg) (r : round) : list lev :=
  match parse_in (r_pkt r) with
  | None => []
  | Some i =>
    flat_map (fun f => match parse_out f with
                       | Some p => if is_lease_reply p then
                                     [{| le_typ := typ p; le_ip := d_yiaddr (po_msg p); le_pid := pid c (pi_msg i) (pi_opt i); le_mac := d_chaddr (pi_msg i);
                                         le_arr := r_t r; le_sent := po_t p; le_opts := d_options (po_msg p) |}]
                                   else []
                       | None => [] end) (r_outs r)
  end.

Definition events (c : scfg) (h : list round) : list lev := flat_map (round_events c) h.

(* C01: when an address is acknowledged, no other client holds an unexpired acknowledgement
   (lease counted from the arrival of its request) nor a pending offer (hold counted from the DISCOVER) *)
Fixpoint c01_scan (c : scfg) (past : list lev) (rest : list lev) : bool :=
  match rest with
  | [] => true
  | a :: more =>
    (if le_typ a =? 5 then
       forallb (fun b => negb (le_ip b =? le_ip a) || bytes_eqb (le_pid b) (le_pid a) ||
                         (if le_typ b =? 5 then (le_arr b + c_lease c <? le_sent a)%Z else (le_arr b + hold_ns <? le_sent a)%Z)) past
     else true) && c01_scan c (past ++ [a]) more
  end.
Definition mon_C01 (c : scfg) (h : list round) : bool := c01_scan c [] (events c h).

(* C02: only configured addresses *)
Definition is_reserved_addr (c : scfg) (a : N) : bool := existsb (fun p => snd p =? a) (c_statics c).
Definition mon_C02 (c : scfg) (h : list round) : bool :=
  forallb (fun e =>
    let y := le_ip e in
    (net_from (c_db c) <=? y) && (y <=? net_to (c_db c)) && negb (y =? c_self_ip c) &&
    (match reserved_ip c (le_mac e) with Some s => s =? y | None => false end || in_dyn (c_db c) y) &&
    (negb (dynamic_disabled (c_db c)) || negb (is_none (reserved_ip c (le_mac e))))) (events c h).

(* C03: reservations are exclusive and honoured *)
Definition mon_C03 (c : scfg) (h : list round) : bool :=
  forallb (fun e => match reserved_ip c (le_mac e) with
                    | Some s => le_ip e =? s
                    | None => negb (is_reserved_addr c (le_ip e)) end) (events c h) &&
  forallb (fun r => match parse_in (r_pkt r) with
                    | Some i =>
                      match reserved_ip c (d_chaddr (pi_msg i)) with
                      | Some s =>
                        if (o_msgtype (pi_opt i) =? 1) && (pi_dst i =? bcast_ip) && is_none (o_sid (pi_opt i)) &&
                           negb (bytes_eqb (d_chaddr (pi_msg i)) (c_self_mac c))
                        then existsb (fun f => match parse_out f with Some p => (typ p =? 2) && (d_yiaddr (po_msg p) =? s) | None => false end) (r_outs r)
                        else true
                      | None => true end
                    | None => true end) h.

(* the live binding of a server identity in a snapshot taken at tq, still valid at instant t *)
Definition snap_bound (snap : list snap_entry) (t : Z) (duid : bytes) : option N :=
  match filter (fun s => bytes_eqb (sn_duid s) duid && (sn_perm s || (t <=? sn_until s)%Z)) snap with
  | s :: _ => Some (sn_ip s) | [] => None end.

(* C04: REQUEST verdicts.  prev = snapshot after the previous round (initial: permanent bindings) *)
Definition c04_round (c : scfg) (prev : list snap_entry) (r : round) : bool :=
  match parse_in (r_pkt r) with
  | None => true
  | Some i =>
    if negb (o_msgtype (pi_opt i) =? 3) then true else
    let m := pi_msg i in let o := pi_opt i in
    let outs := map parse_out (r_outs r) in
    let n_out := length (r_outs r) in
    let desig := match o_reqip o with Some a => a | None => pi_src i end in
    let duid := get_duid c (d_chaddr m) (o_cid o) in
    let bound := snap_bound prev (r_t r) duid in
    let self_mac := bytes_eqb (d_chaddr m) (c_self_mac c) in
    let other_server := match o_sid o with Some s => negb (s =? c_self_ip c) | None => false end in
    let out_of_net := negb (in_managed_range (c_db c) (Some desig)) in
    let other_dst := negb (pi_dst i =? bcast_ip) && negb (pi_dst i =? c_self_ip c) in
    let all_ack_ok := forallb (fun po => match po with
                         | Some p => if typ p =? 5 then (d_yiaddr (po_msg p) =? desig) && opt_eqb bound (Some desig) else true
                         | None => false end) outs in
    let silent := (n_out =? 0)%nat in
    let has_nak := existsb (fun po => match po with Some p => typ p =? 6 | None => false end) outs in
    (n_out <=? 1)%nat && all_ack_ok &&
    (if self_mac || other_server || out_of_net || other_dst then silent else true) &&
    (if negb (self_mac || other_server || out_of_net || other_dst) &&
        (((pi_dst i =? bcast_ip) && opt_eqb (o_sid o) (Some (c_self_ip c)) && negb (is_none (o_reqip o))) ||
         ((pi_dst i =? c_self_ip c) && is_none (o_sid o) && is_none (o_reqip o))) &&
        negb (opt_eqb bound (Some desig))
     then has_nak else true)
  end.

Fixpoint c04_scan (c : scfg) (prev : list snap_entry) (h : list round) : bool :=
  match h with
  | [] => true
  | r :: rest => c04_round c prev r && c04_scan c (if r_has_snap r then r_snap r else prev) rest
  end.
Definition mon_C04 (c : scfg) (h : list round) : bool := c04_scan c (snap_of 0%Z (initial_table c)) h.

(* C05 (ii): after an ACK of x to a client, every OFFER/ACK to that client sent before the lease has elapsed
   since its latest acknowledgement carries x *)
Fixpoint c05_scan (c : scfg) (past : list lev) (rest : list lev) : bool :=
  match rest with
  | [] => true
  | a :: more =>
    forallb (fun b => negb (le_typ b =? 5) || negb (bytes_eqb (le_pid b) (le_pid a)) ||
                      negb (le_sent a <? le_arr b + c_lease c)%Z || (le_ip b =? le_ip a) ||
                      (* a later ACK of another address supersedes: only the latest acknowledgement counts *)
                      existsb (fun b2 => (le_typ b2 =? 5) && bytes_eqb (le_pid b2) (le_pid a) && (le_sent b <? le_sent b2)%Z) past) past
    && c05_scan c (past ++ [a]) more
  end.

(* C05 (i): an offered address requested back within the hold, with no foreign ARP answer, is acknowledged *)
Definition foreign_answer (r : round) (mac : bytes) (x : N) : bool :=
  existsb (fun a => (ar_ip a =? x) && negb (bytes_eqb (ar_mac a) mac) && (ar_delay a <? arp_tries * arp_timeout)%Z) (r_arp r).

Fixpoint c05_hold (c : scfg) (past : list lev) (h : list round) : bool :=
  match h with
  | [] => true
  | r :: rest =>
    let evs := round_events c r in
    (match parse_in (r_pkt r) with
     | Some i =>
       if (o_msgtype (pi_opt i) =? 3) && (pi_dst i =? bcast_ip) && opt_eqb (o_sid (pi_opt i)) (Some (c_self_ip c)) &&
          negb (bytes_eqb (d_chaddr (pi_msg i)) (c_self_mac c)) then
         match o_reqip (pi_opt i) with
         | Some x =>
           let p := pid c (pi_msg i) (pi_opt i) in
           (* the latest event for this client is an OFFER of x and this arrival lies within the hold counted from its transmission *)
           match filter (fun b => bytes_eqb (le_pid b) p) (rev past) with
           | b :: _ => if (le_typ b =? 2) && (le_ip b =? x) && (le_sent b <=? r_t r)%Z && (r_t r <=? le_sent b + hold_ns)%Z &&
                          negb (foreign_answer r (d_chaddr (pi_msg i)) x)
                       then existsb (fun e => (le_typ e =? 5) && (le_ip e =? x)) evs else true
           | [] => true end
         | None => true end
       else true
     | None => true end) && c05_hold c (past ++ evs) rest
  end.
(* C05 / C07: the address is reserved for as long as the ACK says: a table listing taken after an ACK shows the
   acknowledged address bound (permanently, or at least until the advertised lease time after the ACK was sent) *)
Definition ack_reserved (r : round) : bool :=
  negb (r_has_snap r) ||
  forallb (fun f => match parse_out f with
                    | Some p =>
                      if typ p =? 5 then
                        existsb (fun e => (sn_ip e =? d_yiaddr (po_msg p)) &&
                                          (sn_perm e || (po_t p + Z.of_N (o_lease (po_opt p)) * 1000000000 <=? sn_until e)%Z)) (r_snap r)
                      else true
                    | None => true
                    end) (r_outs r).
(* C05: the server stays silent on a DISCOVER for lack of addresses only when no eligible address is left: no address of the
   dynamic range that is a host address, is bound to nobody in the table listing before the packet (bindings and pending
   offers that have not run out at its arrival) and is not answered for by a foreign host in this round.  prev = the listing
   after the previous round.  Stated for clients without a binding and without a reservation (C03 has those). *)
Definition snap_taken (snap : list snap_entry) (t : Z) (a : N) : bool :=
  existsb (fun e => (sn_ip e =? a) && (sn_perm e || (t <=? sn_until e)%Z)) snap.
Fixpoint c05_silence (c : scfg) (prev : list snap_entry) (h : list round) : bool :=
  match h with
  | [] => true
  | r :: rest =>
    (match parse_in (r_pkt r), r_outs r with
     | Some i, [] =>
       let m := pi_msg i in let o := pi_opt i in
       if (o_msgtype o =? 1) && (pi_dst i =? bcast_ip) && is_none (o_sid o) && negb (bytes_eqb (d_chaddr m) (c_self_mac c)) &&
          is_none (reserved_ip c (d_chaddr m)) && is_none (snap_bound prev (r_t r) (get_duid c (d_chaddr m) (o_cid o))) &&
          negb (dynamic_disabled (c_db c))
       then negb (existsb (fun a => uip_valid a && negb (snap_taken prev (r_t r) a) && negb (foreign_answer r (d_chaddr m) a))
                          (dyn_addresses (c_db c)))
       else true
     | _, _ => true
     end) && c05_silence c (if r_has_snap r then r_snap r else prev) rest
  end.
(* C05: "no message from it or from anyone else shortens that": a binding (or pending offer) listed after one round is
   still listed after the next - same address, same client, running at least as long - unless it has run out by then *)
Fixpoint c05_monotone (prev : list snap_entry) (h : list round) : bool :=
  match h with
  | [] => true
  | r :: rest =>
    (if r_has_snap r then
       forallb (fun e => sn_perm e || (sn_until e <? r_tq r)%Z ||
                         existsb (fun e' => (sn_ip e' =? sn_ip e) && bytes_eqb (sn_duid e') (sn_duid e) &&
                                            (sn_perm e' || (sn_until e <=? sn_until e')%Z)) (r_snap r)) prev
     else true) && c05_monotone (if r_has_snap r then r_snap r else prev) rest
  end.
(* C05: "a client asking for a specific free address of the pool is offered that address (addresses ending in .0 or .255 may be
   passed over)": a broadcast DISCOVER of an unreserved, unbound client that suggests a host address of the dynamic range which the
   listing before the packet shows free and for which no foreign host answers in this round - if it is answered with an OFFER, the OFFER
   carries that address.  Judged only when the listing is that of the round just before (fresh). *)
Definition c05_suggest_round (c : scfg) (prev : list snap_entry) (r : round) : bool :=
  match parse_in (r_pkt r), r_outs r with
  | Some i, [f] =>
    let m := pi_msg i in let o := pi_opt i in
    match o_reqip o, parse_out f with
    | Some x, Some p =>
      if (o_msgtype o =? 1) && (pi_dst i =? bcast_ip) && is_none (o_sid o) && negb (bytes_eqb (d_chaddr m) (c_self_mac c)) &&
         is_none (reserved_ip c (d_chaddr m)) && is_none (snap_bound prev (r_t r) (get_duid c (d_chaddr m) (o_cid o))) &&
         negb (dynamic_disabled (c_db c)) && in_dyn (c_db c) x && uip_valid x && negb (snap_taken prev (r_t r) x) &&
         negb (foreign_answer r (d_chaddr m) x) && (typ p =? 2)
      then d_yiaddr (po_msg p) =? x else true
    | _, _ => true end
  | _, _ => true end.
Fixpoint c05_suggest (c : scfg) (prev : list snap_entry) (fresh : bool) (h : list round) : bool :=
  match h with
  | [] => true
  | r :: rest => (negb fresh || c05_suggest_round c prev r) && c05_suggest c (if r_has_snap r then r_snap r else prev) (r_has_snap r) rest
  end.
Definition mon_C05 (c : scfg) (h : list round) : bool :=
  c05_scan c [] (events c h) && c05_hold c [] h && forallb ack_reserved h && c05_silence c (snap_of 0%Z (initial_table c)) h &&
  c05_monotone (snap_of 0%Z (initial_table c)) h && c05_suggest c (snap_of 0%Z (initial_table c)) true h.

(* C06: envelope of every reply *)
Definition c06_round (c : scfg) (r : round) : bool :=
  match r_outs r with
  | [] => true
  | [f] =>
    match parse_in (r_pkt r), parse_out f with
    | Some i, Some p =>
      let m := po_msg p in
      (* it "travels": a header checksum that verifies and a UDP checksum that verifies or is absent (RFC 791 / 768) *)
      ipv4_hdr_ok (of_pkt f) && udp_ok (po_ipsrc p) (po_ipdst p) (skipn 20 (of_pkt f)) &&
      (po_proto p =? 17) && (po_ipsrc p =? c_self_ip c) && (po_sport p =? 67) && (po_dport p =? 68) && (d_op m =? 2) &&
      (d_xid m =? d_xid (pi_msg i)) && bytes_eqb (d_chaddr m) (d_chaddr (pi_msg i)) && opt_eqb (o_sid (po_opt p)) (Some (c_self_ip c)) &&
      (if is_lease_reply p then
         (d_flags m =? d_flags (pi_msg i)) &&
         (if bflag (d_flags (pi_msg i)) then (po_ipdst p =? bcast_ip) && bytes_eqb (po_eth p) bcast_mac
          else (po_ipdst p =? d_yiaddr m) && bytes_eqb (po_eth p) (d_chaddr (pi_msg i)))
       else (typ p =? 6) && (po_ipdst p =? bcast_ip))
    | _, _ => false
    end
  | _ => false
  end.
Definition mon_C06 (c : scfg) (h : list round) : bool := forallb (c06_round c) h.

(* C07 (server-history part): advertised lease = configured lease in whole seconds, netmask option present,
   OFFER and ACK to one hardware address carry the same parameters *)
Definition opts_tail (os : list dhcp_opt) : list dhcp_opt := skipn 2 os.
Fixpoint dopts_eqb (a b : list dhcp_opt) : bool :=
  match a, b with
  | [], [] => true
  | (c1, d1) :: a', (c2, d2) :: b' => (c1 =? c2) && bytes_eqb d1 d2 && dopts_eqb a' b'
  | _, _ => false
  end.
Definition mon_C07 (c : scfg) (h : list round) : bool :=
  let evs := events c h in
  forallb ack_reserved h &&
  (* what goes out on the wire for a hardware address is the option list the configuration prescribes for it *)
  forallb (fun e => dopts_eqb (opts_tail (le_opts e)) (opts_for c (le_mac e))) evs &&
  forallb (fun e => (o_lease (decode_options (le_opts e)) =? Z.to_N (c_lease c / 1000000000)) &&
                    negb (is_none (o_mask (decode_options (le_opts e)))) &&
                    forallb (fun e2 => negb (bytes_eqb (le_mac e2) (le_mac e)) || dopts_eqb (opts_tail (le_opts e)) (opts_tail (le_opts e2))) evs) evs.

(* C08: a foreign ARP answer for x inside the probe window: x is not offered to a client that has no
   binding, and a REQUEST designating x is answered with NAK; every reply comes within the bounded probe time *)
Fixpoint c08_scan (c : scfg) (prev : list snap_entry) (h : list round) : bool :=
  match h with
  | [] => true
  | r :: rest =>
    (match parse_in (r_pkt r) with
     | Some i =>
       let m := pi_msg i in let o := pi_opt i in
       let duid := get_duid c (d_chaddr m) (o_cid o) in
       let bound := snap_bound prev (r_t r) duid in
       forallb (fun f => match parse_out f with
         | Some p =>
           let y := d_yiaddr (po_msg p) in
           (if (typ p =? 2) && is_none bound then negb (foreign_answer r (d_chaddr m) y) else true) &&
           (if typ p =? 5 then negb (foreign_answer r (d_chaddr m) y) else true) &&
           (* only an answer whose sender address is the probed address counts: a REQUEST by the holder of x for x is refused
              (NAK) on account of ARP only if a foreign host did answer for x in this round *)
           (if (typ p =? 6) && (o_msgtype o =? 3) then
              let desig := match o_reqip o with Some a => a | None => pi_src i end in
              negb (opt_eqb bound (Some desig)) || foreign_answer r (d_chaddr m) desig
            else true) &&
           (po_t p - r_t r <=? 50000000 + (Z.of_nat (length (dyn_addresses (c_db c))) + 2) * arp_tries * arp_timeout)%Z
         | None => false end) (r_outs r)
     | None => true end) && c08_scan c (if r_has_snap r then r_snap r else prev) rest
  end.
Definition mon_C08 (c : scfg) (h : list round) : bool := c08_scan c (snap_of 0%Z (initial_table c)) h.

(* C10: a packet that is not an IPv4/UDP BOOTREQUEST of a handled type causes no reply and leaves the
   bindings as they were (entries may only have expired meanwhile) *)
Definition handled (c : scfg) (pkt : bytes) : bool :=
  match parse_in pkt with
  | Some i => let t := o_msgtype (pi_opt i) in (t =? 1) || (t =? 3)
  | None => false end.
Definition snap_sub (now : Z) (a b : list snap_entry) : bool :=
  forallb (fun x => existsb (snap_entry_eqb x) b) a &&
  forallb (fun y => existsb (snap_entry_eqb y) a || negb (sn_perm y || (now <=? sn_until y)%Z)) b.
Fixpoint c10_scan (c : scfg) (prev : list snap_entry) (h : list round) : bool :=
  match h with
  | [] => true
  | r :: rest =>
    (if handled c (r_pkt r) then true
     else (length (r_outs r) =? 0)%nat && (negb (r_has_snap r) || snap_sub (r_tq r) (r_snap r) prev))
    && c10_scan c (if r_has_snap r then r_snap r else prev) rest
  end.
Definition mon_C10 (c : scfg) (h : list round) : bool := c10_scan c (snap_of 0%Z (initial_table c)) h.
