(* The premises of the wire-level theorems (proofs/WireProofs.v, WireInv.v) as boolean functions, so that every history
   the harness produces can be shown to lie inside them (tag 220) and so that the non-vacuity examples are computations.
   Only model-level definitions are used here; proofs/WireHypsProofs.v reflects them into the premises. *)
From PSA Require Import model.Bytes model.Dhcp model.Clients model.Ipdb model.IpdbCheck model.Server.
Open Scope N_scope.

Definition h_opt_ok (o : dhcp_opt) : bool :=
  negb (fst o =? 0) && (fst o <? 255) && (len (snd o) <=? 255) && wf_bytes (snd o) && negb (fst o =? 53) && negb (fst o =? 54).
Definition h_opts_ok (os : list dhcp_opt) : bool :=
  forallb h_opt_ok os && (len (flat_map enc_opt os) <=? 60000).
Definition h_cfg_wire (c : scfg) : bool :=
  (c_self_ip c <? 4294967296) && (net_to (c_db c) <? 4294967296) && h_opts_ok (c_default_opts c) &&
  forallb (fun p => h_opts_ok (snd p)) (c_opts c).

Fixpoint nodup_b {A} (eqb : A -> A -> bool) (l : list A) : bool :=
  match l with [] => true | x :: r => negb (existsb (eqb x) r) && nodup_b eqb r end.

Definition h_pairs (c : scfg) : list (bytes * N) := c_statics c ++ [(c_self_mac c, c_self_ip c)].
Definition h_cfg_srv (c : scfg) : bool :=
  nodup_b bytes_eqb (map fst (h_pairs c)) && nodup_b N.eqb (map snd (h_pairs c)) &&
  forallb (fun p => (net_from (c_db c) <=? snd p) && (snd p <=? net_to (c_db c))) (h_pairs c) &&
  (dynamic_disabled (c_db c) || ((net_from (c_db c) <=? dyn_from (c_db c)) && (dyn_to (c_db c) <=? net_to (c_db c)))).

Definition h_round_end (r : round) : Z := fold_left Z.max (map of_t (r_outs r)) (r_t r).
Fixpoint h_seq_times (now : Z) (h : list round) : bool :=
  match h with [] => true | r :: rest => (now <=? r_t r)%Z && h_seq_times (h_round_end r) rest end.

(* the lease and the two holds as the theorems about reservations need them *)
Definition h_durations (c : scfg) : bool := (0 <=? hold_ns)%Z && (hold_ns <=? c_lease c)%Z && (0 <=? req_hold_ns)%Z && (req_hold_ns <=? c_lease c)%Z.

Definition wire_hyps (c : scfg) (h : list round) : bool :=
  h_cfg_wire c && h_cfg_srv c && h_durations c && forallb (fun r => wf_bytes (r_pkt r)) h && h_seq_times 0%Z h.
