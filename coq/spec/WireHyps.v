(* The premises of the wire-level theorems (proofs/WireProofs.v, WireInv.v) as boolean functions, so that every history
   the harness produces can be shown to lie inside them (tag 220) and so that the non-vacuity examples are computations.
   Only model-level definitions are used here; proofs/WireHypsProofs.v reflects them into the premises. *)
From PSA Require Import model.Bytes model.Dhcp model.Clients model.Ipdb model.IpdbCheck model.Server.
Open Scope N_scope.

Definition h_opt_ok (o : dhcp_opt) : bool :=
  negb (fst o =? 0) && (fst o <? 255) && (len (snd o) <=? 255) && wf_bytes (snd o) && negb (fst o =? 53) && negb (fst o =? 54).
Definition h_opts_ok (os : list dhcp_opt) : bool :=
  forallb h_opt_ok os && (len (flat_map enc_opt os) <=? 60000).
Definition h_cfg_wire (c : scfg) : bool :=
  (c_self_ip c <? 4294967296) && (net_to (c_db c) <? 4294967296) && h_opts_ok (c_default_opts c) &&
  forallb (fun p => h_opts_ok (snd p)) (c_opts c).

(* the lease time the option lists advertise (option 51, whole seconds) is not longer than the lease the server reserves *)
Definition h_lease_opt (c : scfg) (os : list dhcp_opt) : bool := (Z.of_N (o_lease (decode_options os)) * 1000000000 <=? c_lease c)%Z.
Definition h_cfg_lease (c : scfg) : bool := h_lease_opt c (c_default_opts c) && forallb (fun p => h_lease_opt c (snd p)) (c_opts c).

Fixpoint nodup_b {A} (eqb : A -> A -> bool) (l : list A) : bool :=
  match l with [] => true | x :: r => negb (existsb (eqb x) r) && nodup_b eqb r end.

Definition h_pairs (c : scfg) : list (bytes * N) := c_statics c ++ [(c_self_mac c, c_self_ip c)].
Definition h_cfg_srv (c : scfg) : bool :=
  nodup_b bytes_eqb (map fst (h_pairs c)) && nodup_b N.eqb (map snd (h_pairs c)) &&
  forallb (fun p => (net_from (c_db c) <=? snd p) && (snd p <=? net_to (c_db c))) (h_pairs c) &&
  (dynamic_disabled (c_db c) || ((net_from (c_db c) <=? dyn_from (c_db c)) && (dyn_to (c_db c) <=? net_to (c_db c)))).

Definition h_round_end (r : round) : Z := fold_left Z.max (map of_t (r_outs r)) (r_t r).
Fixpoint h_seq_times (now : Z) (h : list round) : bool :=
  match h with [] => true | r :: rest => (now <=? r_t r)%Z && h_seq_times (h_round_end r) rest end.

(* the lease and the two holds as the theorems about reservations need them *)
Definition h_durations (c : scfg) : bool := (0 <=? hold_ns)%Z && (hold_ns <=? c_lease c)%Z && (0 <=? req_hold_ns)%Z && (req_hold_ns <=? c_lease c)%Z.

(* sequential rounds with a table listing after each: the listing is taken once the round is over (not later than a hold time
   after it) and before the next packet arrives; at most one ARP responder per address *)
Fixpoint h_snap_times (now : Z) (h : list round) : bool :=
  match h with
  | [] => true
  | r :: rest => (now <=? r_t r)%Z && (h_round_end r <=? r_tq r)%Z && (r_tq r <=? h_round_end r + hold_ns)%Z && r_has_snap r &&
                 nodup_b N.eqb (map ar_ip (r_arp r)) && h_snap_times (r_tq r) rest
  end.

(* the option lists carry the configured lease (whole seconds) and a netmask (what the configuration model of C07/C18 produces) *)
Definition h_c07_opt (c : scfg) (os : list dhcp_opt) : bool :=
  (o_lease (decode_options os) =? Z.to_N (c_lease c / 1000000000)) && negb (is_none (o_mask (decode_options os))).
Definition h_cfg_c07 (c : scfg) : bool := h_c07_opt c (c_default_opts c) && forallb (fun p => h_c07_opt c (snd p)) (c_opts c).

Definition wire_hyps (c : scfg) (h : list round) : bool :=
  h_cfg_wire c && h_cfg_srv c && h_durations c && forallb (fun r => wf_bytes (r_pkt r)) h && h_seq_times 0%Z h &&
  h_cfg_lease c && h_snap_times 0%Z h && h_cfg_c07 c.
